#!/usr/bin/env python3
"""seeded_table.py <serial log> : markdown table 'seeded change -> which checks report it' from a lib/trymut.sh log, and
caught_by fields written into seeded/<id>/meta.json"""
import re, sys, json, os
log = open(sys.argv[1]).read()
blocks = re.split(r"(?m)^== ", log)[1:]
rows = []
for b in blocks:
    head, *lines = b.splitlines()
    if "->" not in head:
        continue
    mid, checks = [x.strip() for x in head.split("->")]
    res = {}
    if any("PATCH DOES NOT APPLY" in l for l in lines):
        rows.append((mid, None, "patch does not apply to the repaired tree (the changed lines were rewritten by a fix)"))
        continue
    for c in checks.split():
        viol = sorted({m.group(1) for l in lines for m in [re.search(r"VIOLATION property=%s .*?\(([\w-]+):" % c, l)] if m})
        summ = [l for l in lines if l.startswith("%s quick:" % c)]
        mach = any("MACHINERY-ERROR property=%s" % c in l for l in lines)
        res[c] = ("MACHINERY ERROR" if mach else (", ".join(viol) if viol else "-"))
    rows.append((mid, res, ""))
print("| seeded change | what it does | reported by (predicate) | not reported by |")
print("|---|---|---|---|")
for mid, res, note in rows:
    mp = "/verif/seeded/%s/meta.json" % mid
    meta = json.load(open(mp)) if os.path.exists(mp) else {}
    title = re.sub(r"^C\d+\s*[/—-]?\s*change\s*\d+\s*[-—:]*\s*", "", meta.get("title", ""), flags=re.I)[:110]
    if res is None:
        print("| %s | %s | — | %s |" % (mid, title, note))
        continue
    hit = "; ".join("%s: %s" % (c, v) for c, v in res.items() if v not in ("-",))
    miss = ", ".join(c for c, v in res.items() if v == "-")
    print("| %s | %s | %s | %s |" % (mid, title, hit or "**none**", miss))
    if meta:
        meta["caught_by_quick"] = {c: v for c, v in res.items()}
        json.dump(meta, open(mp, "w"), indent=1)
