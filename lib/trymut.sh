#!/bin/bash
# usage: trymut.sh <patch.diff> <tier> <check ids...> : apply a seeded change to /repo, run checks, undo it.
P=$1; T=$2; shift 2
cd /repo && git apply --check "$P" || { echo "PATCH DOES NOT APPLY: $P"; exit 3; }
git apply "$P"
trap 'git -C /repo checkout -- . ' EXIT
for id in "$@"; do
  (cd /verif && ./check $id --tier $T 2>&1 | grep -E "VIOLATION|KNOWN-FINDING|MACHINERY|violation\(s\)" | cut -c1-220 | head -8)
done
