#!/usr/bin/env python3
"""confirm_mutant.py <outdir> <base-commit> : independently confirm a seeded change produced by a sub-agent:
patch applies on base, builds, the package tests that exist still pass, the demonstration fails with the patch and
passes without it. Prints a JSON verdict. Works in its own scratch worktree under /tmp (removed afterwards)."""
import sys, os, re, json, subprocess, shutil, tempfile
out, base = sys.argv[1], sys.argv[2]
ENV = dict(os.environ, GOFLAGS="-mod=mod", GOPROXY="off", GOSUMDB="off", GOTOOLCHAIN="local")
SKIP = "TestGetGroupVersionResource|TestResyncCRDPod|TestReleasePolicyForScalableCrd|TestGetReplicas|TestCleanupVeth|TestInit$"
def sh(cmd, cwd, timeout=900):
    p = subprocess.run(cmd, cwd=cwd, shell=True, env=ENV, stdout=subprocess.PIPE, stderr=subprocess.STDOUT, text=True, timeout=timeout)
    return p.returncode, p.stdout
txt = open(os.path.join(out, "demo_path.txt")).read()
m = re.search(r"((?:pkg|cni|cmd|e2e|tools)/[\w/.\-]+_test\.go)", txt)
cmdm = re.search(r"(go test [^\n]+)", txt)
res = {"dir": out, "base": base}
if not m or not cmdm:
    res["error"] = "cannot parse demo_path.txt"; print(json.dumps(res)); sys.exit(0)
demo_dst, demo_cmd = m.group(1), cmdm.group(1).strip()
wt = tempfile.mkdtemp(prefix="confirm.", dir="/tmp")
os.rmdir(wt)
try:
    rc, o = sh("git -C /repo worktree add -q --detach %s %s" % (wt, base), "/repo")
    demo_src = os.path.join(out, "demo_test.go")
    if not os.path.exists(demo_src):
        cands = [f for f in os.listdir(out) if f.endswith("_test.go")]
        demo_src = os.path.join(out, cands[0]) if cands else demo_src
    shutil.copy(demo_src, os.path.join(wt, demo_dst))
    rc, o = sh(demo_cmd, wt); res["demo_pristine_pass"] = rc == 0
    rc, o = sh("git apply %s" % os.path.join(out, "patch.diff"), wt); res["applies"] = rc == 0
    rc, o = sh("go build ./...", wt); res["builds"] = rc == 0
    rc, o = sh(demo_cmd, wt); res["demo_patched_fails"] = rc != 0; res["demo_patched_tail"] = o[-400:]
    os.remove(os.path.join(wt, demo_dst))
    pkgs = sorted({os.path.dirname(l[6:]) for l in open(os.path.join(out, "patch.diff")) if l.startswith("+++ b/")})
    pk = " ".join("./" + p + "/..." for p in pkgs)
    # the packages the patch touches plus the ipam tree (where most suites live)
    rc, o = sh("go test -vet=off -count=1 -skip '%s' %s ./pkg/ipam/... ./pkg/galaxy/... ./pkg/api/... ./pkg/network/portmapping/... ./pkg/policy/... ./pkg/utils/..." % (SKIP, pk), wt, 1500)
    res["suite_passes"] = rc == 0
    if rc != 0: res["suite_tail"] = "\n".join(l for l in o.splitlines() if "FAIL" in l or "panic" in l)[-600:]
finally:
    subprocess.run("git -C /repo worktree remove --force %s" % wt, shell=True)
res["confirmed"] = all(res.get(k) for k in ("demo_pristine_pass", "applies", "builds", "demo_patched_fails", "suite_passes"))
print(json.dumps(res))
