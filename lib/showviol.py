#!/usr/bin/env python3
"""showviol.py <trace.ndjson> <report.json> [prop] [n]: print the trace of violations compactly"""
import json,sys
L=[json.loads(l) for l in open(sys.argv[1])]
r=json.load(open(sys.argv[2]))
prop=sys.argv[3] if len(sys.argv)>3 else None
n=int(sys.argv[4]) if len(sys.argv)>4 else 1
def k(r):
    if not isinstance(r,dict) or 'pool' not in r: return r
    return "/".join([r['pool'],r['kind'],r['app'],r['pod']]) if any(r.values()) else "-"
def args(a):
    out={}
    for x,v in a.items():
        if isinstance(v,dict) and 'pool' in v: out[x]=k(v)
        elif x=='attr': out[x]="p%s,%s,%s"%(v['policy'],v['uid'],v['node'])
        elif x=='want': out[x]={ip:k(kk) for ip,kk in v.items()}
        else: out[x]=v
    return out
shown=0
for v in r['viol']:
    if prop and v['prop']!=prop: continue
    print("####",v)
    i=v['line']-1; s=i
    while L[s]['ev']!='Reset': s-=1
    print("  scenario",L[s].get('scenario'),"specs",{n:(x['kind'],x['app'],x['pool'],x['policy'],x['ranges']) for n,x in L[s]['specs'].items()}, "cloud",L[s]['cloudOn'], L[s]['sts'],L[s]['dp'],L[s]['poolobj'])
    for j in range(s+1,i+1):
        e=L[j]
        quiet = e['ev']=='Step' and e['call'] in ('lockpod','lockdp','NodeSubnetsByIPRanges') and j!=i
        if quiet: continue
        keep={x:y for x,y in e.items() if x in('ev','op','pod','uid','node','f','type','retry','app','replicas','ip','pool','size','prealloc','conf')}
        if e['ev']=='Step':
            keep['c']=e['call']; keep['a']=args(e['args']); keep['r']={x:y for x,y in e['ret'].items() if x not in('err',) or y}
            if 'res' in e: keep['res']={x:(y if x!='err' else y[:60]) for x,y in e['res'].items()}
        line=json.dumps(keep)
        mem=""
        if 'mem' in e: mem="  MEM "+" ".join(f"{ip}={k(m['key'])},p{m['policy']},{m['uid']},{m['node']}" for ip,m in sorted(e['mem'].items()) if any(m['key'].values()))
        print(f"  {j+1:5d} {line[:300]}{mem}")
    shown+=1
    if shown>=n: break
