#!/bin/bash
# usage: mc.sh <Module> <cfg> [extra tlc args]  -> runs TLC in a scratch dir, prints filtered output
W=$(mktemp -d /verif/.work/mc.XXXXXX)
cp /verif/spec/*.tla $W/ && cp /verif/spec/mc/$2 $W/
M=$1; C=$2; shift 2
cd $W && timeout ${MC_TIMEOUT:-1800} tlc -workers ${MC_WORKERS:-16} -metadir $W/meta -config $C "$@" $M.tla > $W/out.txt 2>&1
rc=$?
grep -v "^Parsing\|^Semantic\|^Linting" $W/out.txt > /verif/.work/mc_last.txt
grep -v "^/\\\\\|^  \|^$" /verif/.work/mc_last.txt | tail -${MC_TAIL:-25}
rm -rf $W
exit $rc
