"""C20 (FipConf) and C18 (Words + hang/panic observations): TLC enumerates a bounded input space exhaustively and computes
the expected values from the specification; a Go driver feeds every vector to the real code and compares."""
import json, os, re, shutil, subprocess, glob
import vlib
import ipam_family as F


def tlc_vectors(run, module, cfg, outname, timeout=1200):
    """Run a constant-evaluation spec that writes outname (JSON) next to itself; returns the path."""
    w = run.path("tlc-" + module)
    shutil.rmtree(w, ignore_errors=True)
    os.makedirs(w)
    for f in glob.glob(os.path.join(vlib.SPEC, "*.tla")):
        shutil.copy(f, w)
    shutil.copy(os.path.join(vlib.SPEC, "mc", cfg), w)
    p = subprocess.run(["tlc", "-workers", "4", "-metadir", os.path.join(w, "meta"), "-config", cfg, module + ".tla"], cwd=w,
                       stdout=subprocess.PIPE, stderr=subprocess.STDOUT, text=True, timeout=timeout)
    out = os.path.join(w, outname)
    if "No error has been found" not in p.stdout or not os.path.exists(out):
        raise vlib.Machinery("TLC vector generation %s/%s failed:\n%s" % (module, cfg, p.stdout[-2000:]))
    return out


def run_fipdrive(run, vectors, every=1):
    binp = run.build("fipdrive")
    res = run.path("fip.json")
    p = subprocess.run([binp, "-vectors", vectors, "-out", res, "-every", str(every)], stdout=subprocess.PIPE, stderr=subprocess.STDOUT, text=True, timeout=3000)
    if p.returncode != 0 or not os.path.exists(res):
        raise vlib.Machinery("fipdrive failed:\n" + p.stdout[-2000:])
    return json.load(open(res))


def c20(run, a):
    quick = run.tier == "quick"
    run.level = "model_checking"
    vec = tlc_vectors(run, "FipConf", "fipconf_q.cfg" if quick else "fipconf_t.cfg", "vectors.json")
    meta = json.load(open(vec))
    res = run_fipdrive(run, vec)
    cov = run.coverage
    cov["states"] = meta["n"]            # every enumerated configuration is one state of the input space
    cov["transitions"] = res["evaluations"]
    cov["evaluations"] = res["evaluations"]
    cov["traces_validated_against_impl"] = res["evaluations"]
    cov["distinct_nontrivial"] = sum(1 for v in meta["vectors"] if v["valid"] and len(v["ranges"]) >= 1)
    cov["exhaustive"] = True
    cov["rule"] = ("TLC enumerates every pool (gateway, prefix length, list of <= %d ranges) over a %d-bit address space and computes validity, "
                   "size and member set from FipConf.tla; each vector is checked at 3 embeddings (10.0.0.0, 0.0.0.0, top of IPv4) against the real "
                   "decoder, Size, Contains, ConfigurePool+ByPrefix enumeration, Marshal round trip and InsertIP/RemoveIP; non-trivial = valid with >= 1 range"
                   % (2 if quick else 3, meta["w"]))
    cov["samples"] = [meta["vectors"][i] for i in (1, len(meta["vectors"]) // 2, len(meta["vectors"]) - 1)]
    for fd in res["findings"] or []:
        sig = {"check": fd["check"], "embedding": fd["embedding"], "ends_at_max": fd["ends_at_max"]}
        run.add_violation(fd["check"], "%s at embedding %s: %s" % (fd["check"], fd["embedding"], fd["detail"][:160]),
                          {"property": "C20", "vector": fd["vector"], "config": fd["config"], "embedding": fd["embedding"], "detail": fd["detail"],
                           "how": "feed `config` to json.Unmarshal into floatingip.FloatingIPPool (harness/cmd/fipdrive)"}, sig)
    run.assumptions += ["pod subnets other than 0.0.0.0/0; one node subnet; vlan fixed", "expected values come from FipConf.tla evaluated by TLC (Laws checked on the spec itself)"]


def c18(run, a):
    quick = run.tier == "quick"
    run.level = "exploration"
    # (i) termination of the address walks and agreement of the W-bit adjacency test, for all words
    run.model_check("Words", "words.cfg", timeout=600, workers=4)
    # (ii) the real loops at the top of the IPv4 space under a watchdog (every FipConf vector)
    vec = tlc_vectors(run, "FipConf", "fipconf_q.cfg" if quick else "fipconf_t.cfg", "vectors.json")
    res = run_fipdrive(run, vec)
    hang = [fd for fd in (res["findings"] or []) if fd["check"] == "enumerate-terminates"]
    for fd in hang:
        run.add_violation("NoHang", "ConfigurePool never returns for %s" % fd["config"], {"property": "C18", "config": fd["config"], "detail": fd["detail"]},
                          {"check": fd["check"], "embedding": fd["embedding"], "ends_at_max": fd["ends_at_max"]})
    # (iii) every request of the IPAM-family driver runs under the scheduler's watchdog; panics are recorded
    F.plugin_traces(run, "C18", quick)
    # (iv) every valid NetworkPolicy / pod event of the policy universe through the real PolicyManager (a panic kills the driver)
    import policy_checks
    tf, panic = policy_checks.gen(run, 40 if quick else 300, 12, run.seed, "c18-pol.ndjson")
    if tf is None:
        run.add_violation("NoPanic", "the policy manager panicked: " + (panic.strip().splitlines() or [""])[0][:200],
                          {"property": "C18", "output": panic[-3000:], "how": "harness/cmd/poldrive -seed %d -n %d -len 12" % (run.seed, 40 if quick else 300)},
                          {"prop": "NoPanic", "layer": "policy", "tag": ""})
    else:
        run.coverage["policy_actions_survived"] = sum(1 for _ in open(tf))
        os.remove(tf)
    cov = run.coverage
    cov["evaluations"] += res["evaluations"]
    vmeta = json.load(open(vec))
    top = 2 ** vmeta["w"] - 1
    cov["distinct_nontrivial"] += sum(1 for v in vmeta["vectors"] if v["valid"] and any(r[1] == top for r in v["ranges"]))
    cov["rule"] = ("Words.tla: all (first,last) words, W=4, termination + exact walk; FipConf vectors at the top of the IPv4 space under a 2 s watchdog "
                   "(non-trivial = valid pool with a range ending at the maximum address); plus every operation of the IPAM-family traces under the "
                   "scheduler watchdog with panic capture; plus random NetworkPolicy/pod event histories through the real PolicyManager (every policyTypes/peer/port form of the universe). "
                   "Byte-level parser surfaces are NOT covered (DESIGN.md 6 C18).")
    run.assumptions += ["narrow claim: arithmetic loops, lock release at operation end (a left-over lock shows as a hang of the next operation), panics in driven operations"]


def c11(run, a):
    quick = run.tier == "quick"
    run.level = "model_checking"
    vec = tlc_vectors(run, "KeyCodec", "keycodec_q.cfg" if quick else "keycodec_t.cfg", "keyvectors.json")
    meta = json.load(open(vec))
    binp = run.build("codecdrive")
    res = run.path("codec.json")
    p = subprocess.run([binp, "-vectors", vec, "-out", res, "-api-every", "7" if quick else "3"], stdout=subprocess.PIPE, stderr=subprocess.STDOUT, text=True, timeout=3000)
    if p.returncode != 0 or not os.path.exists(res):
        raise vlib.Machinery("codecdrive failed:\n" + p.stdout[-2000:])
    r = json.load(open(res))
    cov = run.coverage
    cov["states"] = meta["n"]
    cov["transitions"] = r["codec"] + r["api"] + r["pagings"] + r.get("batches", 0)
    cov["evaluations"] = r["codec"] + r["api"] + r["pagings"] + r.get("batches", 0)
    cov["traces_validated_against_impl"] = r["api"]
    cov["distinct_nontrivial"] = r["api"]
    cov["exhaustive"] = True
    cov["rule"] = ("TLC enumerates every pod over names of length <= %d (alphabet a,b,0,-), 4 owner kinds, 3 pools, 2 namespaces and computes key, decoded fields and API entry from KeyCodec.tla "
                   "(PagingPartition checked on the spec); every pod goes through the real FormatKey/ParseKey (distinctness over all real keys), every k-th through the real HTTP handlers "
                   "(allocate, list, post the entry back verbatim and with appType omitted for statefulsets, a second owner's ip must stay), release requests with three listed entries of different owner kinds "
                   "in both orders (EntryAddressesOwnKey: the key an entry addresses depends on that entry alone), paging with all sizes for n <= 6" % (2 if quick else 3))
    cov["samples"] = [meta["vectors"][0], meta["vectors"][len(meta["vectors"]) // 2]]
    for fd in r["findings"] or []:
        sig = {"check": fd["check"], "kind": fd["kind"]}
        run.add_violation(fd["check"], "%s (owner kind %s): %s" % (fd["check"], fd["kind"], fd["detail"][:160].replace("\n", " ")),
                          {"property": "C11", "vector": fd["vector"], "detail": fd["detail"], "how": "harness/cmd/codecdrive"}, sig)
    run.assumptions += ["names are DNS-1123 labels (no underscore); pool names likewise", "the owner of a deployment pod is a ReplicaSet named <deployment>-<hash>"]


def _cnidrive(run, mode, vec, extra):
    import fcntl
    plugin = run.build("fakeplugin")
    binp = run.build("cnidrive")
    work = run.path("cni")
    os.makedirs(work, exist_ok=True)
    res = run.path("cni-%s.json" % mode)
    # the daemon's socket and state directory are fixed paths: one driver at a time
    with open(os.path.join(vlib.WORK, "cni.lock"), "w") as lk:
        fcntl.flock(lk, fcntl.LOCK_EX)
        p = subprocess.run([binp, "-mode", mode, "-vectors", vec, "-work", work, "-plugin", plugin, "-out", res] + extra,
                           stdout=subprocess.PIPE, stderr=subprocess.STDOUT, text=True, timeout=3000)
    if p.returncode != 0 or not os.path.exists(res):
        raise vlib.Machinery("cnidrive failed:\n" + p.stdout[-2000:])
    return json.load(open(res))


def c12(run, a):
    quick = run.tier == "quick"
    run.level = "model_checking"
    vec = tlc_vectors(run, "CNIMux", "cnimux_q.cfg" if quick else "cnimux_t.cfg", "cnivectors.json", timeout=3000)
    meta = json.load(open(vec))
    r = _cnidrive(run, "c12", vec, ["-n", "400" if quick else "6000", "-seed", str(run.seed)])
    cov = run.coverage
    cov["states"] = meta["n"]
    cov["transitions"] = r["requests"]
    cov["evaluations"] = r["requests"]
    cov["traces_validated_against_impl"] = r["scenarios_run"]
    cov["distinct_nontrivial"] = r["nontrivial"]
    cov["exhaustive"] = False
    cov["plugin_invocations_observed"] = r["invocations"]
    cov["rule"] = ("TLC enumerates every scenario (a pod out of 8 annotation/ENI shapes for each of 2 containers, <= %d ADD/DEL requests, <= %d failing (network, command) pairs per request) and "
                   "computes the expected invocations, response and saved list from CNIMux.tla (PairLaw, RepeatLaw, RetryLaw checked on the spec); a seeded sample of the scenarios is run against the real "
                   "daemon over its unix socket with recording plugins (%s scenarios); non-trivial = some request invokes >= 2 plugins or has an injected failure" % (2, 1, "400" if quick else "6000"))
    s0 = meta["scenarios"][len(meta["scenarios"]) // 3]
    cov["samples"] = [s0]
    for fd in r["findings"] or []:
        run.add_violation(fd["check"], fd["detail"][:200], {"property": "C12", "scenario": fd["scenario"], "request_index": fd["req"], "detail": fd["detail"], "how": "harness/cmd/cnidrive -mode c12"},
                          {"check": fd["check"]})
    run.assumptions += ["requests are issued sequentially (concurrent requests only in the thorough tier)", "plugins are replaced by a recording binary; the daemon, its socket protocol, pod lookup and state files are real"]


def c13(run, a):
    quick = run.tier == "quick"
    run.level = "translation_validation"
    vec = tlc_vectors(run, "Deliver", "deliver_q.cfg" if quick else "deliver_t.cfg", "delivervectors.json")
    meta = json.load(open(vec))
    r = _cnidrive(run, "c13", vec, ["-every", "3" if quick else "7"])
    cov = run.coverage
    cov["programs"] = r["vectors_run"]
    cov["disagreements_checked"] = r["vectors_run"]
    cov["evaluations"] = r["vectors_run"]
    cov["distinct_nontrivial"] = r["vectors_run"]
    cov["states"] = meta["n"]
    cov["samples"] = [r.get("sample")]
    cov["rule"] = "TLC enumerates pool attribute tuples (prefix 8/24/30/32, gateway first/last host, vlan 0/2/4094) for 1..%d IPs per pod; each vector runs the real Bind, daemon and plugins' decoder end to end" % (2 if quick else 3)
    for fd in r["findings"] or []:
        run.add_violation(fd["check"], fd["detail"][:200], {"property": "C13", "vector": fd["scenario"], "detail": fd["detail"], "how": "harness/cmd/cnidrive -mode c13"}, {"check": fd["check"]})
    run.assumptions += ["the composition is checked end to end; the kernel-side configuration done by the vendored plugins is not"]


def c17(run, a):
    quick = run.tier == "quick"
    run.level = "model_checking"
    # GC.tla: safety invariants + liveness on the behaviour spec, and the scenario vectors
    w = run.path("tlc-GC")
    shutil.rmtree(w, ignore_errors=True)
    os.makedirs(w)
    for f in glob.glob(os.path.join(vlib.SPEC, "*.tla")):
        shutil.copy(f, w)
    shutil.copy(os.path.join(vlib.SPEC, "mc", "gc.cfg"), w)
    p = subprocess.run(["tlc", "-workers", "4", "-metadir", os.path.join(w, "meta"), "-config", "gc.cfg", "GC.tla"], cwd=w, stdout=subprocess.PIPE, stderr=subprocess.STDOUT, text=True, timeout=1200)
    m = re.search(r"(\d+) states generated, (\d+) distinct states found, 0 states left", p.stdout)
    vec = os.path.join(w, "gcvectors.json")
    if "No error has been found" not in p.stdout or not m or not os.path.exists(vec):
        raise vlib.Machinery("TLC on GC.tla failed:\n" + p.stdout[-2000:])
    binp = run.build("gcdrive")
    work = run.path("gc")
    os.makedirs(work, exist_ok=True)
    res = run.path("gc.json")
    p2 = subprocess.run([binp, "-vectors", vec, "-work", work, "-n", "60" if quick else "768", "-seed", str(run.seed), "-out", res], stdout=subprocess.PIPE, stderr=subprocess.STDOUT, text=True, timeout=3000)
    if p2.returncode != 0 or not os.path.exists(res):
        raise vlib.Machinery("gcdrive failed:\n" + p2.stdout[-2000:])
    r = json.load(open(res))
    meta = json.load(open(vec))
    cov = run.coverage
    cov["states"], cov["transitions"] = int(m.group(2)), int(m.group(1))
    cov["model_runs"] = [{"module": "GC", "cfg": "gc.cfg", "distinct_states": int(m.group(2)), "properties": ["NeverCollectLive", "FailSafe", "PortCleanedBeforeStateFile", "EventuallyCollected (liveness, WF on rounds)"]}]
    cov["traces_validated_against_impl"] = r["vectors_run"]
    cov["evaluations"] = r["phases"]
    cov["distinct_nontrivial"] = r["vectors_run"]
    cov["exhaustive"] = not quick
    cov["samples"] = [meta["vectors"][100], meta["vectors"][500]]
    cov["rule"] = ("TLC checks the behaviour spec (3 containers x 4 states, runtime up/err/down, at most one container whose own inspect call keeps failing while the runtime answers for the others, "
                   "rounds interleaved with container deaths, runtime changes and the repair of the inspect fault; safety + liveness) and emits all %d scenarios "
                   "(container states x <=2 runtime phases x per-container inspect fault x failing port clean-up) with the files that must exist after each phase; %s run against the real collector with a fake docker daemon over real directories, "
                   "including non-container files and both content formats of IP files" % (meta["n"], "a seeded sample is" if quick else "all are"))
    for fd in r["findings"] or []:
        run.add_violation(fd["check"], fd["detail"][:200], {"property": "C17", "vector": fd["vector"], "phase": fd["phase"], "detail": fd["detail"], "how": "harness/cmd/gcdrive"}, {"check": fd["check"]})
    run.assumptions += ["docker runtime path (CONTAINERD_HOST unset); veth clean-up is not observed", "a phase lasts several GC rounds (interval 15 ms); 'within a bounded number of rounds' is checked as: gone after >= 3 inspect rounds"]


def c14(run, a):
    quick = run.tier == "quick"
    run.level = "model_checking"
    vec = tlc_vectors(run, "PortMap", "portmap_q.cfg", "pmvectors.json")
    meta = json.load(open(vec))
    binp = run.build("pmdrive")
    res = run.path("pm.json")
    p = subprocess.run([binp, "-vectors", vec, "-n", "1500" if quick else "0", "-seed", str(run.seed), "-out", res], stdout=subprocess.PIPE, stderr=subprocess.STDOUT, text=True, timeout=3000)
    if p.returncode != 0 or not os.path.exists(res):
        raise vlib.Machinery("pmdrive failed:\n" + p.stdout[-2000:])
    r = json.load(open(res))
    cov = run.coverage
    cov["states"], cov["transitions"] = meta["n"], r["steps"]
    cov["traces_validated_against_impl"] = r["vectors_run"]
    cov["evaluations"] = r["steps"] + r["socket_rounds"]
    cov["distinct_nontrivial"] = r["vectors_run"]
    cov["exhaustive"] = not quick
    cov["samples"] = [meta["vectors"][len(meta["vectors"]) // 2]]
    cov["rule"] = ("TLC checks CleanIsInverse/OthersUntouched/SyncExact on PortMap.tla and enumerates all histories of <= 3 setup/clean/sync operations over 3 pods (4 mappings incl. udp with host IP and two pods with the same host port) "
                   "x 4 stale-chain sets; each history is run on the real handler over the repository's fake NAT table preloaded with stale and foreign chains, the table compared after every operation; 20 socket rounds with random ports")
    for fd in r["findings"] or []:
        run.add_violation(fd["check"], fd["detail"][:200], {"property": "C14", "vector": fd["vector"], "step": fd["step"], "detail": fd["detail"], "how": "harness/cmd/pmdrive"}, {"check": fd["check"]})
    run.assumptions += ["the repository's fake iptables (iptables-restore --noflush semantics) is the trusted NAT table; KUBE-MARK-MASQ is treated as shared with kubelet, not foreign", "sockets are real (kernel-assigned random ports)"]
