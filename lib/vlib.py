#!/usr/bin/env python3
"""Shared machinery of the /verif checks: building the Go harness against /repo's working tree, running TLC
(model checking and trace validation), known-findings matching, evidence files, verdict/exit-code rules.

Verdict rules (DESIGN.md 3.5):
  exit 0  property held on everything explored (KNOWN-FINDING lines allowed)
  exit 1  + line `VIOLATION property=<id> replay=<path>`: a property predicate was false on an observed
          state/step of a REAL-CODE execution (or a TLC-computed expected value disagrees with the real output)
  exit 2  machinery problem (build failure, TLC error, timeout, model-only counterexample): never a verdict
"""
import json, os, re, shutil, subprocess, sys, time, hashlib, glob

ROOT = "/verif"
WORK = os.path.join(ROOT, ".work")
HARNESS = os.path.join(ROOT, "harness")
SPEC = os.path.join(ROOT, "spec")
GOENV = dict(os.environ, GOFLAGS="-mod=mod", GOPROXY="off", GOSUMDB="off", GOTOOLCHAIN="local")
NCPU = os.cpu_count() or 4


class Machinery(Exception):
    """Something in the verification machinery failed: exit 2, never a violation."""


def log(*a):
    print(*a, flush=True)


def seed_from_env(default=1):
    try:
        return int(os.environ.get("VERIF_SEED", default))
    except ValueError:
        return default


class Run:
    """One invocation of one property check."""

    def __init__(self, pid, tier, seed):
        self.id = pid
        self.tier = tier
        self.seed = seed
        self.t0 = time.time()
        self.dir = os.path.join(WORK, "%s-%d" % (pid, os.getpid()))
        shutil.rmtree(self.dir, ignore_errors=True)
        os.makedirs(self.dir, exist_ok=True)
        os.makedirs(os.path.join(WORK, "replay"), exist_ok=True)
        os.makedirs(os.path.join(WORK, "bin"), exist_ok=True)
        self.violations = []      # dicts: {prop, what, replay, sig}
        self.known = []           # matched known findings
        self.divergences = []
        self.coverage = {"states": 0, "transitions": 0, "traces_validated_against_impl": 0, "samples": [],
                         "evaluations": 0, "distinct_nontrivial": 0, "exhaustive": False, "model_runs": []}
        self.assumptions = []
        self.level = "model_checking"

    def path(self, name):
        return os.path.join(self.dir, name)

    def cleanup(self):
        shutil.rmtree(self.dir, ignore_errors=True)

    # ---- building ----
    def build(self, cmd):
        """Build harness/cmd/<cmd> with hooks on, from /repo's current working tree."""
        # per run: checks that run at the same time never execute each other's binaries
        os.makedirs(os.path.join(self.dir, "bin"), exist_ok=True)
        out = os.path.join(self.dir, "bin", cmd)
        if not os.path.exists(os.path.join(HARNESS, "go.sum")) or \
                open(os.path.join(HARNESS, "go.sum")).read() != open("/repo/go.sum").read():
            shutil.copy("/repo/go.sum", os.path.join(HARNESS, "go.sum"))
        p = subprocess.run(["go", "build", "-tags", "verif", "-o", out, "./cmd/" + cmd], cwd=HARNESS, env=GOENV,
                           stdout=subprocess.PIPE, stderr=subprocess.STDOUT, text=True, timeout=1200)
        if p.returncode != 0:
            # A tree that does not compile cannot be checked; that is not a property violation.
            raise Machinery("go build of %s failed:\n%s" % (cmd, p.stdout[-3000:]))
        return out

    # ---- TLC ----
    def _tlc(self, module, cfg, workers, timeout, extra=(), files=()):
        w = self.path("tlc-%s-%s" % (module, os.path.basename(cfg).replace(".cfg", "")))
        shutil.rmtree(w, ignore_errors=True)
        os.makedirs(w)
        for f in glob.glob(os.path.join(SPEC, "*.tla")):
            shutil.copy(f, w)
        shutil.copy(os.path.join(SPEC, "mc", cfg), w)
        for src, dst in files:
            shutil.copy(src, os.path.join(w, dst))
        cmd = ["tlc", "-workers", str(workers), "-metadir", os.path.join(w, "meta"), "-config", cfg] + list(extra) + [module + ".tla"]
        t0 = time.time()
        try:
            p = subprocess.run(cmd, cwd=w, stdout=subprocess.PIPE, stderr=subprocess.STDOUT, text=True, timeout=timeout)
        except subprocess.TimeoutExpired:
            subprocess.run(["pkill", "-f", w], check=False)
            raise Machinery("TLC timed out after %ds on %s/%s" % (timeout, module, cfg))
        out = p.stdout
        open(os.path.join(w, "out.txt"), "w").write(out)
        return out, w, time.time() - t0

    def model_check(self, module, cfg, timeout=900, workers=None, extra=()):
        """Exhaustive TLC run of a bounded configuration. A counterexample on the MODEL is not a verdict
        about the code (exit 2): the registered configurations describe the code as it is and must pass."""
        out, w, dt = self._tlc(module, cfg, workers or NCPU, timeout, extra)
        m = re.search(r"(\d+) states generated, (\d+) distinct states found, (\d+) states left on queue", out)
        if "Model checking completed. No error has been found." not in out or not m:
            tail = "\n".join(l for l in out.splitlines() if not re.match(r"^(Parsing|Semantic|Linting)", l))[-2500:]
            raise Machinery("model check %s/%s did not complete cleanly:\n%s" % (module, cfg, tail))
        gen, dist = int(m.group(1)), int(m.group(2))
        depth = re.search(r"depth of the complete state graph search is (\d+)", out)
        self.coverage["states"] += dist
        self.coverage["transitions"] += gen
        self.coverage["model_runs"].append({"module": module, "cfg": cfg, "distinct_states": dist, "states_generated": gen,
                                            "depth": int(depth.group(1)) if depth else None, "wall_s": round(dt, 1), "complete": True})
        self.coverage["exhaustive"] = True
        shutil.rmtree(w, ignore_errors=True)
        return dist, gen

    def validate_traces(self, module, cfg, tracefile, timeout=900):
        """Run the trace specification over a recorded ndjson file; returns the REPORT record."""
        out, w, dt = self._tlc(module, cfg, 1, timeout, files=[(tracefile, "trace.ndjson")])
        reps = re.findall(r'<<"REPORT", "(.*)">>', out)
        if not reps:
            tail = "\n".join(l for l in out.splitlines() if not re.match(r"^(Parsing|Semantic|Linting)", l))[-2500:]
            raise Machinery("trace validation %s produced no REPORT:\n%s" % (module, tail))
        viol, div, rep0 = {}, {}, None
        for r in reps:
            rep = json.loads(r.encode().decode("unicode_escape"))
            if rep["consumed"] != rep["lines"]:
                raise Machinery("trace validation consumed %d of %d lines" % (rep["consumed"], rep["lines"]))
            rep0 = rep0 or rep
            for v in rep["viol"]:
                viol[json.dumps(v, sort_keys=True)] = v
            for d in rep["div"]:
                div[json.dumps(d, sort_keys=True)] = d
        rep0["viol"] = sorted(viol.values(), key=lambda v: v["line"])
        rep0["div"] = sorted(div.values(), key=lambda v: v["line"])
        shutil.rmtree(w, ignore_errors=True)
        return rep0

    # ---- verdicts ----
    def save_replay(self, name, payload):
        self._nrep = getattr(self, "_nrep", 0) + 1
        p = os.path.join(WORK, "replay", "%s-%s-%d-%d.json" % (self.id, name, self.seed, self._nrep))
        with open(p, "w") as f:
            json.dump(payload, f, indent=1)
        return p

    def add_violation(self, prop, what, replay_payload, sig):
        """sig: dict describing the violating step (matched against known_findings.json)."""
        kf = match_known(self.id, sig)
        if kf is not None:
            if kf["id"] not in [k["id"] for k in self.known]:
                self.known.append(kf)
            return
        if len(self.violations) >= 12:      # enough to report; do not litter the replay directory
            self.violations.append({"prop": prop, "what": what, "replay": self.violations[-1]["replay"], "sig": sig})
            return
        path = self.save_replay(prop, replay_payload)
        self.violations.append({"prop": prop, "what": what, "replay": path, "sig": sig})

    def finish(self):
        cov = self.coverage
        wall = round(time.time() - self.t0, 1)
        ev = {"property_id": self.id, "tier": self.tier, "seed": self.seed, "level": self.level, "coverage": cov,
              "assumptions": self.assumptions, "wall_s": wall, "violations": len(self.violations)}
        cov["known_findings_matched"] = [k["id"] for k in self.known]
        cov["divergences"] = self.divergences[:20]
        cov["conformant"] = len(self.divergences) == 0
        os.makedirs(os.path.join(ROOT, "evidence"), exist_ok=True)
        with open(os.path.join(ROOT, "evidence", self.id + ".json"), "w") as f:
            json.dump(ev, f, indent=1, sort_keys=True)
        for d in self.divergences[:10]:
            log("DIVERGENCE property=%s %s" % (self.id, json.dumps(d, sort_keys=True)))
        for k in self.known:
            log("KNOWN-FINDING: property=%s %s" % (self.id, k["what"]))
        for v in self.violations[:10]:
            log("VIOLATION property=%s replay=%s   (%s: %s)" % (self.id, v["replay"], v["prop"], v["what"]))
        self.cleanup()
        log("%s %s: %d violation(s), %d known finding(s), %d divergence(s), %.1fs" %
            (self.id, self.tier, len(self.violations), len(self.known), len(self.divergences), wall))
        return 1 if self.violations else 0


# ---- known findings ----
def load_known():
    p = os.path.join(ROOT, "known_findings.json")
    if not os.path.exists(p):
        return {"open": [], "fixed": []}
    return json.load(open(p))


def match_known(pid, sig):
    """An open finding matches when every key of its `match` equals the signature's value (lists = any of)."""
    for k in load_known().get("open", []):
        if pid not in k.get("properties", [k.get("property")]):
            continue
        ok = True
        for key, want in k.get("match", {}).items():
            have = sig.get(key)
            if isinstance(want, list):
                ok = ok and have in want
            else:
                ok = ok and have == want
        if ok:
            return k
    return None


def trace_slice(tracefile, trace_id):
    """The lines of one trace (from its Reset line to the next Reset) of a concatenated ndjson file."""
    out, on = [], False
    for line in open(tracefile):
        e = json.loads(line)
        if e.get("ev") == "Reset":
            on = e.get("trace") == trace_id
        if on:
            out.append(e)
    return out


def main_wrapper(fn):
    """Run a check function(run) with the common CLI and the exit-code rules."""
    import argparse
    ap = argparse.ArgumentParser()
    ap.add_argument("--tier", default=os.environ.get("VERIF_TIER", "quick"))
    ap.add_argument("--seed", type=int, default=seed_from_env())
    ap.add_argument("--replay", default=None)
    a = ap.parse_args(sys.argv[2:])
    return a
