"""C05 / C08 / C09 at the level of the floatingip.IPAM object: IPAMCoreSpec (TLC, exhaustive on small constants)
bound to floatingip.NewCrdIPAM by coredrive traces validated against Trace_IPAMCore."""
import json, os, random, subprocess
import vlib

PROPS = {
    "C05": {"MemStoreAgree", "RestartReconstructs", "ReloadLossless"},
    "C08": {"MultiAllOrNothing", "MultiInRangeOrdered"},
    "C09": {"ReservedNotAllocated", "ReservedObjectKept", "OnlyConfigured", "ReloadDropsExactlyOthers",
            "ReloadLossless", "MemStoreAgreeAfterReload"},
}
RELEVANT = {  # a trace is non-trivial for the property if it contains one of these events
    "C05": {"Crash", "CrashInMulti", "Restart"}, "C05f": True,
    "C08": {"AllocateMulti", "CrashInMulti"},
    "C09": {"Reload", "CfgSwap", "CfgList", "AdminReserve"},
}


def gen_traces(run, focus, n, length, seed, name="core.ndjson"):
    binp = run.build("coredrive")
    out = run.path(name)
    p = subprocess.run([binp, "-seed", str(seed), "-n", str(n), "-len", str(length), "-focus", focus, "-out", out],
                       stdout=subprocess.PIPE, stderr=subprocess.STDOUT, text=True, timeout=1800)
    if p.returncode != 0:
        raise vlib.Machinery("coredrive failed (rc %d):\n%s" % (p.returncode, p.stdout[-2000:]))
    return out


def selftest(run, tracefile):
    """Binding demonstration: corrupt one logged field / drop one event of a good trace; both must be rejected."""
    lines = open(tracefile).read().splitlines()
    # first trace only
    first = []
    for l in lines:
        e = json.loads(l)
        if e["ev"] == "Reset" and first:
            break
        first.append(e)
    idx = [i for i, e in enumerate(first) if e["ev"] in ("AllocateInSubnet", "AllocateMulti") and e["ret"]["ok"]
           and i + 1 < len(first) and "mem" in first[i + 1] and first[i + 1]["ev"] != "Reset"]
    if not idx:
        return None
    i = idx[0]
    # (a) corrupt the owner recorded in memory for the allocated ip
    bad = json.loads(json.dumps(first))
    ip = bad[i]["ret"]["ips"][0]
    bad[i]["mem"][ip]["uid"] = "corrupted"
    pa = run.path("selftest_a.ndjson")
    open(pa, "w").write("\n".join(json.dumps(e) for e in bad) + "\n")
    ra = run.validate_traces("Trace_IPAMCore", "trace_core.cfg", pa)
    # (b) drop the event
    bad = first[:i] + first[i + 1:]
    pb = run.path("selftest_b.ndjson")
    open(pb, "w").write("\n".join(json.dumps(e) for e in bad) + "\n")
    rb = run.validate_traces("Trace_IPAMCore", "trace_core.cfg", pb)
    ok = len(ra["div"]) > 0 and len(rb["div"]) > 0
    if not ok:
        raise vlib.Machinery("self-test: a corrupted trace was accepted (a:%d b:%d divergences)" % (len(ra["div"]), len(rb["div"])))
    return {"corrupted_field_rejected": True, "dropped_event_rejected": True}


def evaluate(run, pid, tracefile, rep):
    props = PROPS[pid]
    seen = set()
    lines = None
    for v in rep["viol"]:
        prop = v["prop"]
        # a reload that loses or resurrects an allocation shows up as memory/store disagreement right at the swap
        if pid == "C09" and prop == "MemStoreAgree" and v["ev"] in ("CfgSwap", "Reload"):
            prop = "MemStoreAgreeAfterReload"
        if prop not in props:
            continue
        key = (v["trace"], prop)
        if key in seen:
            continue        # the first violating step of a property in a trace; later ones are consequences
        seen.add(key)
        sl = vlib.trace_slice(tracefile, v["trace"])
        sig = {"prop": prop, "ev": v["ev"], "layer": "core"}
        run.add_violation(prop, "trace %d line %d event %s" % (v["trace"], v["line"], v["ev"]),
                          {"property": pid, "predicate": prop, "violating_line": v["line"], "trace": sl,
                           "how": "recorded from floatingip.NewCrdIPAM by harness/cmd/coredrive; re-validate with lib/tv.sh Trace_IPAMCore trace_core.cfg"},
                          sig)
    for d in rep["div"]:
        run.divergences.append({"layer": "core", "trace": d["trace"], "line": d["line"], "ev": d["ev"]})


def nontrivial(tracefile, pid):
    rel = RELEVANT[pid]
    seen, n, cur, sig, hit = set(), 0, None, [], False
    def close():
        nonlocal n
        if cur is not None and hit:
            h = hash(tuple(sig))
            if h not in seen:
                seen.add(h); n += 1
    for l in open(tracefile):
        e = json.loads(l)
        if e["ev"] == "Reset":
            close(); cur, sig, hit = e["trace"], [], False
            continue
        sig.append((e["ev"], e.get("f", 0), json.dumps(e.get("ret", {}).get("ok"))))
        if e["ev"] in rel or (pid == "C05" and e.get("f", 0) != 0):
            hit = True
    close()
    return n


def sample(tracefile, k=1):
    out = []
    for e in vlib.trace_slice(tracefile, 0)[:12]:
        out.append({x: e[x] for x in e if x not in ("configs",)})
    return out


def core_check(run, a, pid, mc_cfgs, focus):
    quick = run.tier == "quick"
    for cfg in mc_cfgs["quick" if quick else "thorough"]:
        run.model_check("MC_IPAMCore", cfg, timeout=3000)
    n, length = (150, 30) if quick else (1500, 40)
    total_ev = 0
    seeds = [run.seed] if quick else [run.seed * 1000 + i for i in range(4)]
    st = None
    for i, s in enumerate(seeds):
        tf = gen_traces(run, focus, n, length, s, "core-%d.ndjson" % i)
        rep = run.validate_traces("Trace_IPAMCore", "trace_core.cfg", tf, timeout=3000)
        evaluate(run, pid, tf, rep)
        run.coverage["traces_validated_against_impl"] += rep["stats"]["traces"]
        run.coverage["evaluations"] += rep["stats"]["events"]
        run.coverage["distinct_nontrivial"] += nontrivial(tf, pid)
        if i == 0:
            run.coverage["samples"] = [{"trace_excerpt": sample(tf)}]
            st = selftest(run, tf)
    run.coverage["selftest"] = st
    run.coverage["rule"] = ("random operation sequences (seeded) on the real IPAM object with store faults, crashes, restarts, "
                            "administrator reservations with late watch events, reloads and operations injected into unlocked windows; "
                            "a trace is non-trivial for %s if it contains one of %s%s; distinct by the sequence of (event, fault, ok)"
                            % (pid, sorted(RELEVANT[pid]), " or an injected store fault" if pid == "C05" else ""))
    run.assumptions += [
        "single fault: at most one store call of an operation returns an injected error; AlreadyExists/NotFound arise from the store state",
        "the harness's in-memory FloatingIP store has API-server semantics (AlreadyExists, NotFound, resourceVersion conflict)",
        "administrator reservations use a pool-style key and policy never; watch events are delivered in order",
        "model constants are small (3 IPs, 2 pools, 2 keys, <=1 fault, <=1 crash); the real-code traces use up to 6 IPs and 6 keys",
    ]


def c05(run, a):
    core_check(run, a, "C05", {"quick": ["core_c05.cfg"], "thorough": ["core_c05.cfg", "core_c05_big.cfg"]}, "c05")


def c08(run, a):
    core_check(run, a, "C08", {"quick": ["core_c08.cfg"], "thorough": ["core_c08.cfg", "core_c08_big.cfg"]}, "c08")
    # the request-order half of the statement is about what Bind writes to the pod: plugin-level traces
    import ipam_family
    ipam_family.plugin_traces(run, "C08", run.tier == "quick")
    run.coverage["rule"] += ("; plus gated-scheduler traces of the real plugin (families %s: multi-range pods, partially pre-owned ranges after template changes) "
                             "on which MultiInRangeOrdered is evaluated at every pods/binding call" % ipam_family.FOCUS["C08"])


def c09(run, a):
    core_check(run, a, "C09", {"quick": ["core_c09.cfg"], "thorough": ["core_c09.cfg", "core_c09_big.cfg"]}, "c09")
