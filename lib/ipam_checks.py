import vlib, ipam_family as F

RULES = {
    "C01": ">=2 successful bindings, or one pod name bound in >=2 incarnations",
    "C02": "a pod name bound in >=2 incarnations, or a filter that takes a reserved IP (AllocateInSubnetWithKey)",
    "C03": "at least one binding and one release/reserve call",
    "C04": "at least one binding and one unbind / resync / API release operation",
    "C06": "a scheduler cycle: a filter run to its end directly followed by the bind of that pod on an offered node (coverage counts c06_win*: "
           "filters / fresh default pods / holders / binds / documented wait refusals that the predicates judged)",
    "C07": "at least one allocation made during filter (sized pool or reserve path)",
    "C10": "both AssignIP and UnAssignIP provider calls occur",
}

def generic(run, a, pid, mc_cfgs):
    quick = run.tier == "quick"
    for cfg in mc_cfgs.get("quick" if quick else "thorough", []):
        run.model_check("MC_GalaxyIPAM", cfg, timeout=3400)
    F.plugin_traces(run, pid, quick)
    run.coverage["rule"] = ("seeded random schedules of the gated scheduler over scenario families %s: environment steps, operation starts and single "
                            "segments of filter/bind/unbind/resync/API release/pool update/reload/pod-ip sync, with single faults; every trace ends with a "
                            "quiescence suffix (drain events and work, one resync pass). Non-trivial for %s: %s. Distinct by the sequence of "
                            "(action, operation type, call, fault, outcome)." % (F.FOCUS[pid], pid, RULES[pid]))
    run.assumptions += F.ASSUME

def c01(run, a): generic(run, a, "C01", {"quick": ["ipam_sts_default.cfg", "ipam_sts_syncall_q.cfg"], "thorough": ["ipam_sts_default_t.cfg", "ipam_sts_immutable.cfg", "ipam_sts_syncall.cfg", "ipam_sts_syncall_t.cfg"]})
def c02(run, a): generic(run, a, "C02", {"quick": ["ipam_sts_immutable_q.cfg"], "thorough": ["ipam_sts_immutable.cfg", "ipam_dp_immutable_q.cfg"]})
def c03(run, a): generic(run, a, "C03", {"quick": ["ipam_sts_immutable_q.cfg", "ipam_sts_syncall_q.cfg"], "thorough": ["ipam_sts_immutable.cfg", "ipam_dp_immutable_q.cfg", "ipam_sts_syncall.cfg"]})
def c04(run, a): generic(run, a, "C04", {"quick": ["ipam_sts_default.cfg", "ipam_sts_cloud.cfg", "ipam_sts_syncall_q.cfg"], "thorough": ["ipam_sts_default_t.cfg", "ipam_sts_immutable.cfg", "ipam_sts_cloud.cfg", "ipam_sts_syncall.cfg", "ipam_sts_syncall_t.cfg"]})
def c06(run, a): generic(run, a, "C06", {"quick": ["ipam_topo_q.cfg"], "thorough": ["ipam_topo.cfg", "ipam_topo_ranges.cfg"]})
def c07(run, a): generic(run, a, "C07", {"quick": ["ipam_dp_pool_q.cfg"], "thorough": ["ipam_dp_pool_q.cfg", "ipam_dp_immutable_q.cfg"]})
def c10(run, a): generic(run, a, "C10", {"quick": ["ipam_sts_cloud.cfg"], "thorough": ["ipam_sts_cloud.cfg", "ipam_sts_default_t.cfg"]})
