#!/bin/bash
# usage: tryfam.sh <patch.diff|-> <focus> [n] [len] [seed] : build ipamdrive with the patch applied to /repo (undone right after
# the build), generate traces of one family and validate them; prints the report summary.
P=$1; F=$2; N=${3:-40}; L=${4:-60}; S=${5:-3}
export GOFLAGS=-mod=mod GOPROXY=off GOSUMDB=off GOTOOLCHAIN=local
if [ "$P" != "-" ]; then (cd /repo && git apply --check "$P" && git apply "$P") || { echo "PATCH DOES NOT APPLY"; exit 3; }; fi
(cd /verif/harness && go build -tags verif -o /verif/.work/ipamdrive_m ./cmd/ipamdrive); rc=$?
[ "$P" != "-" ] && git -C /repo checkout -- .
[ $rc = 0 ] || exit 2
/verif/.work/ipamdrive_m -focus $F -n $N -len $L -seed $S -out /verif/.work/fam.ndjson
TV_TIMEOUT=900 /verif/lib/tv.sh Trace_GalaxyIPAM trace_ipam.cfg /verif/.work/fam.ndjson > /verif/.work/fam.rep.json
python3 /verif/lib/sumrep2.py /verif/.work/fam.rep.json
