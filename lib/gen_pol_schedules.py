#!/usr/bin/env python3
"""Regenerates spec/polschedules/*.json: shortest histories of MC_PolicyManager (variable hist) that end in each known shape of
a synchronisation (and one that ends exact with two policies and a chained pod); the policy checks replay them on the real code."""
import json, os, re, subprocess, tempfile, shutil, glob
OUT = "/verif/spec/polschedules"
os.makedirs(OUT, exist_ok=True)
res = []
for inv in ("NotStalePodChainM", "NotStaleBusyM", "NotExactAfterTwoPoliciesM"):
    W = tempfile.mkdtemp(dir="/verif/.work", prefix="polatk.")
    for f in glob.glob("/verif/spec/*.tla"):
        shutil.copy(f, W)
    open(os.path.join(W, "a.cfg"), "w").write("SPECIFICATION Spec\nCONSTANTS\n  Repaired = FALSE\n  MaxSteps = 9\nINVARIANTS %s\nVIEW View\nCHECK_DEADLOCK FALSE\n" % inv)
    p = subprocess.run(["tlc", "-workers", "8", "-metadir", W + "/meta", "-config", "a.cfg", "-dumpTrace", "json", W + "/cex.json", "MC_PolicyManager.tla"],
                       cwd=W, stdout=subprocess.PIPE, stderr=subprocess.STDOUT, text=True, timeout=900)
    if "is violated" in p.stdout and os.path.exists(W + "/cex.json"):
        st = json.load(open(W + "/cex.json"))["counterexample"]["state"]
        last = st[-1]
        last = last[1] if isinstance(last, list) else last
        res.append({"violates": inv, "schedule": last["hist"]})
        print(inv, len(last["hist"]), [h["a"] for h in last["hist"]])
    else:
        print(inv, "no counterexample")
    shutil.rmtree(W, ignore_errors=True)
json.dump(res, open(os.path.join(OUT, "model_cex.json"), "w"), indent=1)
