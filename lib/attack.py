#!/usr/bin/env python3
"""attack.py <base cfg> <guard> [k=v ...] : model-check the configuration with one guard dropped; if TLC finds a
counterexample, print its schedule (hist of the last state) as JSON on stdout."""
import sys, os, re, json, subprocess, tempfile, shutil, glob
base, guard = sys.argv[1], sys.argv[2]
over = dict(a.split("=", 1) for a in sys.argv[3:])
W = tempfile.mkdtemp(dir="/verif/.work", prefix="atk.")
for f in glob.glob("/verif/spec/*.tla"): shutil.copy(f, W)
cfg = open("/verif/spec/mc/" + base).read()
cfg = re.sub(r'Drop = "[^"]*"', 'Drop = "%s"' % guard, cfg)
only = over.pop("only", None)
workers = over.pop("workers", "16")
if only:
    invs = re.search(r"(?m)^INVARIANTS (.*)$", cfg).group(1).split()
    props = re.search(r"(?m)^PROPERTIES (.*)$", cfg).group(1).split()
    sel = only.split(",")
    cfg = re.sub(r"(?m)^INVARIANTS .*$", "INVARIANTS " + " ".join(x for x in invs if x in sel), cfg)
    cfg = re.sub(r"(?m)^PROPERTIES .*$", "PROPERTIES " + " ".join(x for x in props if x in sel), cfg)
    cfg = re.sub(r"(?m)^(INVARIANTS|PROPERTIES) $", "", cfg)
for k, v in over.items():
    cfg = re.sub(r'(?m)^(\s*%s\s*=\s*).*$' % re.escape(k), r'\g<1>' + v, cfg)
open(os.path.join(W, "a.cfg"), "w").write(cfg)
p = subprocess.run(["tlc", "-workers", workers, "-metadir", W + "/meta", "-config", "a.cfg", "-dumpTrace", "json", W + "/cex.json", "MC_GalaxyIPAM.tla"],
                   cwd=W, stdout=subprocess.PIPE, stderr=subprocess.STDOUT, text=True, timeout=int(os.environ.get("ATK_TIMEOUT", "900")))
out = p.stdout
m = re.search(r"(?:Invariant|Action property) (\w+) is violated", out)
st = re.search(r"(\d+) states generated, (\d+) distinct", out)
res = {"guard": guard, "base": base, "violated": m.group(1) if m else None, "states": int(st.group(2)) if st else None}
if m and os.path.exists(W + "/cex.json"):
    cex = json.load(open(W + "/cex.json"))
    states = cex["counterexample"]["state"]
    last = states[-1]
    last = last[1] if isinstance(last, list) else last
    res["schedule"] = last["hist"]
    res["scenario"] = re.search(r'Scenario = "([^"]*)"', cfg).group(1)
else:
    res["tail"] = [l for l in out.splitlines() if l.startswith("Error") or "No error" in l][:5]
shutil.rmtree(W, ignore_errors=True)
print(json.dumps(res))
