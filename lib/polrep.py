#!/usr/bin/env python3
"""polrep.py <report.json> : summary of a Trace_NetPol report"""
import json, sys
from collections import Counter, defaultdict
r = json.load(open(sys.argv[1]))
print(r["stats"], "viol", len(r["viol"]))
c = Counter((v["prop"], v["tag"]) for v in r["viol"])
ex = {}
for v in sorted(r["viol"], key=lambda v: (v["trace"], v["line"])):
    ex.setdefault((v["prop"], v["tag"]), v)
for k, n in sorted(c.items()):
    v = ex[k]
    print(n, k, "first: trace", v["trace"], "line", v["line"], json.dumps(v["detail"])[:400])
