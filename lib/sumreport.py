import json,sys
r=json.loads(sys.stdin.read())
print(r['stats'], 'consumed',r['consumed'],'/',r['lines'])
print('DIV', [(d['line'],d['ev']) for d in sorted(r['div'],key=lambda d:d['line'])][:30])
first={}
for v in sorted(r['viol'],key=lambda d:d['line']):
    first.setdefault((v['trace'],v['prop']),(v['line'],v['ev']))
print('VIOL first per trace/prop', first)
