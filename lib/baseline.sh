#!/bin/bash
# usage: baseline.sh : run the pinned test suite (BASELINE.json cmd, hooks off) on /repo and report every stable_pass test that does not pass
export GOFLAGS=-mod=mod GOPROXY=off GOSUMDB=off GOTOOLCHAIN=local
OUT=/verif/.work/baseline.json
python3 - <<'PY' > /verif/.work/baseline_cmd.sh
import json; print(json.load(open('/root/.vp/BASELINE.json'))['cmd'])
PY
bash /verif/.work/baseline_cmd.sh > $OUT 2>/dev/null
python3 - <<'PY'
import json
b=json.load(open('/root/.vp/BASELINE.json'))
res={}
for l in open('/verif/.work/baseline.json'):
    try: e=json.loads(l)
    except Exception: continue
    if e.get('Test') and e.get('Action') in ('pass','fail','skip'):
        res[e['Package']+'::'+e['Test']]=e['Action']
bad=[t for t in b['stable_pass'] if res.get(t)!='pass']
print("stable_pass", len(b['stable_pass']), "passing now", len(b['stable_pass'])-len(bad))
for t in bad: print("NOT PASSING:", t, res.get(t))
PY
