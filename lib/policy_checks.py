"""C15 / C16: NetPol.tla (Kubernetes NetworkPolicy semantics, galaxy's compilation scheme, filter-table walk) bound to the
real PolicyManager by traces recorded over the strict kernel model (harness/cmd/poldrive) and validated by Trace_NetPol."""
import json, os, subprocess
import vlib

PROPS = {
    "C15": {"SyncExact", "Idempotent", "ForeignUntouched", "NoDanglingBatch"},
    "C16": {"Semantics", "PodEventKeepsUp"},
}


def gen(run, n, length, seed, name):
    binp = run.build("poldrive")
    out = run.path(name)
    p = subprocess.run([binp, "-seed", str(seed), "-n", str(n), "-len", str(length), "-out", out],
                       stdout=subprocess.PIPE, stderr=subprocess.STDOUT, text=True, timeout=3000)
    if p.returncode != 0:
        # a panic of the code under test is an observation, not a machinery error
        if "panic:" in p.stdout and "/repo/pkg/policy" in p.stdout:
            return None, p.stdout
        raise vlib.Machinery("poldrive failed (rc %d):\n%s" % (p.returncode, p.stdout[-2000:]))
    return out, ""


def trace_of(tracefile, tid):
    out, cur = [], None
    for l in open(tracefile):
        e = json.loads(l)
        if e["ev"] == "Reset":
            cur = e["trace"]
        if cur == tid:
            out.append(e)
    return out


def compact(lines):
    out = []
    for e in lines:
        c = e["cluster"]
        out.append({"ev": e["ev"], "obj": e.get("obj", e.get("tag", "")), "handled": e.get("handled", True), "fault": e.get("fault", False),
                    "pods": {k: [",".join(p["labels"]), p["ip"], "local" if p["local"] else "remote"] for k, p in sorted(c["pods"].items())},
                    "policies": sorted(c["policies"]), "rejected": [r["class"] + ": " + r["reason"][:100] for r in e["rejected"]]})
    return out


def judge(run, pid, tf, rep):
    """Turn the violations and divergences of a validated trace file into VIOLATION / KNOWN-FINDING / DIVERGENCE records."""
    seen = set()
    for v in sorted(rep["viol"], key=lambda v: (v["trace"], v["line"])):
        if v["prop"] not in PROPS[pid]:
            continue
        key = (v["prop"], v["tag"], v["trace"])
        if key in seen:
            continue
        seen.add(key)
        tr = trace_of(tf, v["trace"])
        first = next(j for j, l in enumerate(open(tf)) if '"ev":"Reset"' in l and json.loads(l)["trace"] == v["trace"])
        sig = {"prop": v["prop"], "tag": v["tag"], "layer": "policy"}
        run.add_violation(v["prop"], "trace %d line %d%s: %s" % (v["trace"], v["line"], (" [" + v["tag"] + "]") if v["tag"] else "", json.dumps(v["detail"])[:200]),
                          {"property": pid, "predicate": v["prop"], "tag": v["tag"], "detail": v["detail"], "line_in_trace": v["line"] - first,
                           "history": compact(tr[: v["line"] - first]), "trace": tr[: v["line"] - first],
                           "how": "recorded from the real pkg/policy PolicyManager by harness/cmd/poldrive over the strict kernel model; "
                                  "re-validate with lib/tv.sh Trace_NetPol trace_netpol.cfg <file with the `trace` lines>"}, sig)
    for d in rep["div"]:
        run.divergences.append({"layer": "policy", "trace": d["trace"], "line": d["line"], "ev": d["ev"], "obj": d.get("obj"), "why": d.get("why")})


def replay_model_behaviours(run, pid):
    """Behaviours of MC_PolicyManager (counterexamples of the attack invariants: shortest histories into each known shape) replayed
    on the real PolicyManager; the recorded execution is validated and judged like any other."""
    import glob
    scheds = []
    for f in sorted(glob.glob(os.path.join(vlib.SPEC, "polschedules", "*.json"))):
        scheds += json.load(open(f))
    if not scheds:
        return
    sf = run.path("polschedules.json")
    json.dump(scheds, open(sf, "w"))
    binp = run.build("poldrive")
    out = run.path("polsched.ndjson")
    p = subprocess.run([binp, "-schedules", sf, "-out", out], stdout=subprocess.PIPE, stderr=subprocess.STDOUT, text=True, timeout=600)
    if p.returncode != 0:
        if "panic:" in p.stdout and "/repo/pkg/policy" in p.stdout:
            run.add_violation("NoPanic", "the policy manager panicked while replaying a model behaviour", {"property": pid, "output": p.stdout[-3000:]}, {"prop": "NoPanic", "tag": ""})
            return
        raise vlib.Machinery("poldrive -schedules failed (rc %d):\n%s" % (p.returncode, p.stdout[-2000:]))
    rep = run.validate_traces("Trace_NetPol", "trace_netpol.cfg", out, timeout=1200)
    judge(run, pid, out, rep)
    run.coverage["traces_validated_against_impl"] += rep["stats"]["traces"]
    run.coverage["evaluations"] += rep["stats"]["events"]
    run.coverage["model_behaviours_replayed"] = {"n": len(scheds), "ends_in": [s.get("violates") for s in scheds],
                                                 "steps_conforming": rep["stats"].get("conform", 0), "steps_judged": rep["stats"].get("judged", 0)}


def policy_check(run, pid):
    quick = run.tier == "quick"
    run.level = "model_checking"
    for cfg in (["netpol_q.cfg"] if quick else ["netpol_q.cfg", "netpol_t.cfg"]):
        run.model_check("MC_NetPol", cfg, timeout=3400)
    # behaviour of the manager (one operator per pass / handler): every synchronisation outcome is exact or of a known shape;
    # the three-phase synchronisation proposed as the repair of P1/P2 is always exact
    for cfg in ["polmgr_q.cfg", "polmgr_repaired.cfg"]:
        run.model_check("MC_PolicyManager", cfg, timeout=3400)
    replay_model_behaviours(run, pid)
    plan = [(60, 12, run.seed)] if quick else [(150, 14, run.seed * 1000 + k) for k in range(4)]
    syncs = flows = 0
    nontriv = set()
    for i, (n, length, seed) in enumerate(plan):
        tf, panic = gen(run, n, length, seed, "pol-%d.ndjson" % i)
        if tf is None:
            run.add_violation("NoPanic", "the policy manager panicked: " + panic.strip().splitlines()[0][:200],
                              {"property": pid, "seed": seed, "n": n, "len": length, "output": panic[-3000:],
                               "how": "harness/cmd/poldrive -seed %d -n %d -len %d" % (seed, n, length)}, {"prop": "NoPanic", "tag": ""})
            continue
        rep = run.validate_traces("Trace_NetPol", "trace_netpol.cfg", tf, timeout=3400)
        judge(run, pid, tf, rep)
        st = rep["stats"]
        run.coverage.setdefault("steps_conforming_to_PolicyManager", 0)
        run.coverage["steps_conforming_to_PolicyManager"] += st.get("conform", 0)
        syncs += st["syncs"]
        flows += st["flows"]
        run.coverage["traces_validated_against_impl"] += st["traces"]
        run.coverage["evaluations"] += st["events"]
        cur, sigs = None, []
        for l in open(tf):
            e = json.loads(l)
            if e["ev"] == "Reset":
                if sigs:
                    nontriv.add(hash(tuple(sigs)))
                sigs = []
            sigs.append((e["ev"], e.get("handled", True), len(e["cluster"]["policies"]), len(e["rejected"])))
        if sigs:
            nontriv.add(hash(tuple(sigs)))
        if i == 0:
            run.coverage["samples"].append({"policy_trace_excerpt": compact(trace_of(tf, 0))[:8]})
        os.remove(tf)
    run.coverage["distinct_nontrivial"] += len(nontriv)
    run.coverage["synchronisation_points_judged"] = syncs
    run.coverage["flows_judged"] = flows
    run.coverage["rule"] = ("seeded random histories over a universe of 2 namespaces, 5 pods, 3 policies (pod/namespace selectors, ipBlocks with exceptions, TCP/UDP ports, "
                            "all policyTypes forms): cluster edits handled or lost, process down/restart, transient kernel failures, full synchronisations run twice; the kernel model is "
                            "preloaded with foreign chains/rules/sets and unexplained GLX-* garbage. Every line carries the abstract cluster and the kernel state the real code left; TLC "
                            "evaluates the predicates on every line and, at every synchronisation point, the verdict of the installed table for all %d flows of the universe. "
                            "Distinct by the sequence of (event, handled, #policies, #refusals)." % 648)
    run.assumptions += [
        "the strict kernel model (harness/polenv/kernel.go) stands for iptables/ipset: atomic iptables-restore with --noflush semantics, references checked when a line is read, "
        "-X refused for referenced chains, ipset destroy refused for referenced sets, hash:net cannot hold a /0 network, most specific prefix decides nomatch",
        "pod traffic traverses FORWARD; flows are new connections (conntrack rule does not match)",
        "not generated: named ports, SCTP, protocol-only ports, matchExpressions, one network both allowed and excepted by two ipBlock peers of one rule, host-network pods",
        "the manager synchronises when it starts; handlers and synchronisations do not overlap in time",
    ]


def c15(run, a): policy_check(run, "C15")
def c16(run, a): policy_check(run, "C16")
