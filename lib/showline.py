#!/usr/bin/env python3
import json,sys
def k(r): 
    if not any(r.values()): return "-"
    return "/".join([r['pool'],r['kind'],r['app'],r['pod']])
def st(e):
    out=[]
    if 'mem' in e:
        out.append("  mem:   "+"  ".join(f"{ip}={k(m['key'])},p{m['policy']},{m['uid']},{m['node']}{',L' if m['lab'] else ''},t{m['ts']}" for ip,m in sorted(e['mem'].items())))
        out.append("  store: "+"  ".join(f"{ip}={k(m['key'])},p{m['policy']},{m['uid']},{m['node']}{',L' if m['lab'] else ''}" for ip,m in sorted(e['store'].items())))
        out.append("  pools: "+json.dumps(e['pools'])+" alive=%s fev=%s"%(e['alive'],e['fev']))
    return "\n".join(out)
lines=open(sys.argv[1]).read().splitlines()
for a in sys.argv[2:]:
    n=int(a)
    for i in (n-1,n):
        e=json.loads(lines[i-1])
        hdr={x:(k(v) if isinstance(v,dict) and 'pool' in v else v) for x,v in e.items() if x not in('mem','store','pools','alive','fev','configs')}
        print(f"[{i}]",json.dumps(hdr))
        print(st(e))
    print()
