#!/usr/bin/env python3
"""showpol.py <trace.ndjson> <trace id> [from line] : compact view of one policy trace"""
import json, sys
tid = int(sys.argv[2])
cur = None
n = 0
for l in open(sys.argv[1]):
    n += 1
    e = json.loads(l)
    if e["ev"] == "Reset":
        cur = e["trace"]
    if cur != tid:
        continue
    c = e["cluster"]
    pods = " ".join("%s[%s|%s|%s%s]" % (k, ",".join(p["labels"]), p["ip"], "L" if p["local"] else "r", "") for k, p in sorted(c["pods"].items()))
    pols = " ".join("%s{sel=%s types=%s in=%d eg=%d}" % (k, ",".join(p["sel"]), ",".join(p["types"]), len(p["ingress"]), len(p["egress"])) for k, p in sorted(c["policies"].items()))
    print("%4d %-14s %-8s %s %s" % (n, e["ev"], e.get("obj", e.get("tag", "")), "" if e.get("handled", True) else "LOST", "FAULT" if e.get("fault") else ""))
    print("       pods:", pods)
    print("       pols:", pols, " ns:", c["namespaces"])
    for r in e["rejected"]:
        print("       REJECTED[%s] %s: %s" % (r["class"], r["op"][:60], r["reason"][:140]))
    if len(sys.argv) > 3 and n >= int(sys.argv[3]):
        print("       chains:", {k: len(v) for k, v in e["chains"].items()})
        print("       sets:", {k: v["members"] for k, v in e["sets"].items()})
