#!/usr/bin/env python3
"""Regenerates the attack-schedule corpus spec/schedules/attack_*.json: for every scenario configuration and every guard
of the code (GalaxyIPAM.AllGuards), model-check the configuration with that guard dropped, one property at a time; every
counterexample is a minimal schedule exploiting the missing guard. Run offline (minutes); the checks replay the corpus."""
import json, subprocess, sys, os, hashlib
GUARDS = ["unbindUid", "bindStaleLister", "bindUidGuard", "bindPoolSize", "bindReuseReserve", "resyncReread", "apiDoubleCheck",
          "podlock:filter", "podlock:bind", "podlock:unbind", "podlock:resync", "podlock:apirelease",
          "dplock:filter", "dplock:unbind", "dplock:resync", "podlock:syncall", "syncReread"]
PROPS = ["LiveAnnotationsDisjoint", "LiveKeepsIP", "MemStoreAgreeM", "PoolCapM", "LiveAssignedToOwnNode",
         "StickyM", "ReleaseJustifiedM", "CloudSingleNodeM", "UnassignBeforeHandoverM", "NoUnassignWhileLiveM"]
PLAN = [  # cfg, overrides, guards relevant
    ("ipam_sts_default.cfg", {"MaxOps": "5"}, ["unbindUid", "bindStaleLister", "bindUidGuard", "podlock:bind", "podlock:unbind", "podlock:filter"]),
    ("ipam_sts_default.cfg", {"MaxOps": "7"}, ["resyncReread", "podlock:resync", "apiDoubleCheck", "bindUidGuard"]),
    ("ipam_sts_immutable.cfg", {"MaxOps": "6"}, ["unbindUid", "resyncReread", "podlock:apirelease", "podlock:resync", "podlock:unbind", "apiDoubleCheck"]),
    ("ipam_sts_cloud.cfg", {"MaxOps": "5"}, ["unbindUid", "bindStaleLister", "podlock:unbind", "podlock:bind", "resyncReread"]),
    ("ipam_dp_pool_q.cfg", {"MaxOps": "5"}, ["bindPoolSize", "dplock:filter", "podlock:filter", "unbindUid"]),
    ("ipam_dp_scale.cfg", {}, ["dplock:unbind", "podlock:unbind", "unbindUid", "dplock:filter", "bindReuseReserve", "bindUidGuard"]),
    ("ipam_dp_immutable_q.cfg", {"MaxOps": "5"}, ["dplock:unbind", "dplock:filter", "apiDoubleCheck", "unbindUid", "resyncReread"]),
    # the periodic pod-ip sync without the pod lock, and the other guards with the sync running
    ("ipam_sts_syncall_q.cfg", {}, ["podlock:syncall", "unbindUid", "bindStaleLister", "bindUidGuard"]),
    # defect V (found on the faithful model before the fix): the periodic sync without its re-read of the pod under the lock
    # (13 M states; the stored schedule spec/schedules/attack_sts_syncall_reread.json is this run's counterexample)
    ("ipam_sts_syncall_t.cfg", {}, ["syncReread"]),
]
outdir = "/verif/spec/schedules"
timeout = os.environ.get("ATK_TIMEOUT", "600")
seen = set()
results = {}
only_cfgs = sys.argv[1:]
for cfg, over, guards in PLAN:
    if only_cfgs and cfg not in only_cfgs:
        continue
    key = cfg.replace(".cfg", "").replace("ipam_", "").replace("_q", "")
    for g in guards:
        left = list(PROPS)
        while left:  # all remaining properties at once; every counterexample removes its property and the run repeats
            args = ["python3", "/verif/lib/attack.py", cfg, g, "only=" + ",".join(left), "workers=" + os.environ.get("ATK_WORKERS", "12")] + ["%s=%s" % kv for kv in over.items()]
            try:
                p = subprocess.run(args, stdout=subprocess.PIPE, stderr=subprocess.PIPE, text=True, timeout=int(timeout) + 60, env=dict(os.environ, ATK_TIMEOUT=timeout))
                r = json.loads(p.stdout)
            except Exception as e:
                print("FAIL", cfg, g, left, repr(e)[:100], flush=True)
                break
            print(cfg, over, g, r.get("violated"), r.get("states"), len(r.get("schedule", [])), flush=True)
            if not r.get("schedule"):
                break
            left.remove(r["violated"])
            h = hashlib.sha1(json.dumps(r["schedule"], sort_keys=True).encode()).hexdigest()
            if h in seen:
                continue
            seen.add(h)
            results.setdefault(key, []).append({"scenario": r["scenario"], "guard": g, "violated": r["violated"], "schedule": r["schedule"]})
            json.dump(results[key], open(os.path.join(outdir, "attack_%s.json" % key), "w"))
print("done", {k: len(v) for k, v in results.items()})
