#!/usr/bin/env python3
"""Regenerates /verif/MANIFEST.json from the table below (single source of truth for the interface)."""
import json, os, subprocess
ROOT = "/verif"
BASELINE = json.load(open("/root/.vp/BASELINE.json"))["cmd"]

CLAIMED = {
 "C05": dict(cat="model_checking", ref="DESIGN.md 6 C05",
   text="IPAMCoreSpec (every IPAM method with its store-call sequence, a failing twin of every store call, crash/restart, "
        "reload, admin reservations) is model-checked exhaustively by TLC on small constants for MemStoreAgree, "
        "RestartReconstructs, ReloadLossless; the same predicates are evaluated by TLC on every state of traces recorded from the "
        "real floatingip.IPAM driven with store faults at every call index, crashes inside multi-call methods and restarts, and "
        "each recorded step must be a step of the specification (conformance).",
   note="Trusted: the harness's in-memory FloatingIP store (API-server semantics), the projection through ByPrefix(\"\"), TLC. "
        "Single-fault and single-crash budgets; model constants 3 IPs/2 pools; real traces up to 6 IPs.",
   tech="TLA+ spec + TLC exhaustive model checking + trace validation of real-code executions with fault/crash injection"),
 "C08": dict(cat="model_checking", ref="DESIGN.md 6 C08",
   text="AllocateInSubnetsAndIPRange is specified call by call (pick, create x k, rollback); TLC checks MultiAllOrNothing on all "
        "bounded range lists, pool states and failing create indices; traces of the real method (random range lists, partially "
        "pre-owned ranges, every failing create index, crash between creates) are validated against the spec and "
        "MultiAllOrNothing / MultiInRangeOrdered are evaluated on every observed step.",
   note="Ranges pairwise disjoint is NOT assumed by the generator (overlapping ranges are generated too); faults after the allocation "
        "(attribute update, cloud assign, pods/binding) are outside the statement. Plugin-level request order is checked by the IPAM-family driver.",
   tech="TLA+ spec + TLC exhaustive model checking + trace validation of real-code executions with create-fault enumeration"),
 "C09": dict(cat="model_checking", ref="DESIGN.md 6 C09",
   text="Reservations (labelled objects + late watch events), reload (list/swap as separate steps in the attack configuration, atomic in the "
        "faithful one) and AllocateSpecificIP's unlocked window are actions of IPAMCoreSpec; TLC checks ReservedNotAllocated, "
        "ReservedObjectKept, OnlyConfigured, ReloadLossless, ReloadDropsExactlyOthers exhaustively on small constants; the driver "
        "injects a concurrent allocate/release right after ConfigurePool's list and before AllocateSpecificIP's create on the real code, "
        "and TLC evaluates the predicates on every observed state.",
   note="Trusted: harness store and watch-event delivery (events for every create/delete of a labelled object, in order). "
        "Admin reservations use a pool-style key with policy never.",
   tech="TLA+ spec + TLC exhaustive model checking + trace validation with operations injected into the reload window"),
}

NA = {
 "C19": "data races are below the granularity of an action-level TLA+ specification; deciding them needs a race detector / lock-set analysis, i.e. another technique (DESIGN.md section 1)",
}
NOT_YET = "check not built yet in this session (see DESIGN.md build order); will be claimed when its spec and driver exist"

def main():
    props = [json.loads(l) for l in open(os.path.join(ROOT, "properties.jsonl"))]
    checks, na = [], []
    for p in props:
        pid = p["id"]
        if pid in CLAIMED:
            c = CLAIMED[pid]
            checks.append({
                "property_id": pid,
                "quick_cmd": "./check %s --tier quick" % pid,
                "thorough_cmd": "./check %s --tier thorough" % pid,
                "evidence_file": "/verif/evidence/%s.json" % pid,
                "replay_cmd_template": "./check %s --replay {path}" % pid,
                "engine": "tla-ipam",
                "level_claimed": {"category": c["cat"], "text": c["text"], "design_ref": c["ref"]},
                "level_note": c["note"],
                "technique": c["tech"],
            })
        else:
            na.append({"property_id": pid, "reason": NA.get(pid, NOT_YET)})
    hooks = subprocess.run(["git", "-C", "/repo", "log", "--format=%H %s"], stdout=subprocess.PIPE, text=True).stdout.splitlines()
    hook_commits = [l.split()[0] for l in hooks if "verif hooks" in l]
    m = {
        "version": 1,
        "setup_cmd": "cd /verif/harness && cp /repo/go.sum . && GOFLAGS=-mod=mod GOPROXY=off GOSUMDB=off GOTOOLCHAIN=local go build -tags verif ./... && mkdir -p /verif/.work",
        "hooks": {"guard": "verif", "enable": "go build -tags verif (harness module with replace tkestack.io/galaxy => /repo)",
                  "baseline_off_cmd": BASELINE, "source_commits": hook_commits, "add_only": True},
        "engines": [{"name": "tla-ipam", "path": "/verif/spec", "serves_properties": sorted(CLAIMED),
                     "kind_free_text": "explicit TLA+ specifications checked by TLC; Go harness replays/records real-code traces that TLC validates"}],
        "checks": checks,
        "not_applicable": na,
        "notes": "Single entry point ./check <id> --tier quick|thorough; exit 0 held, 1 VIOLATION (real-code observation only), 2 machinery error. known_findings.json lists open findings and fixed defects.",
    }
    json.dump(m, open(os.path.join(ROOT, "MANIFEST.json"), "w"), indent=1)
    print("claimed", sorted(CLAIMED), "n/a", len(na))

if __name__ == "__main__":
    main()
