#!/usr/bin/env python3
"""Regenerates /verif/MANIFEST.json from the table below (single source of truth for the interface)."""
import json, os, subprocess
ROOT = "/verif"
BASELINE = json.load(open("/root/.vp/BASELINE.json"))["cmd"]

CLAIMED = {
 "C05": dict(cat="model_checking", ref="DESIGN.md 6 C05",
   text="IPAMCoreSpec (every IPAM method with its store-call sequence, a failing twin of every store call, crash/restart, "
        "reload, admin reservations) is model-checked exhaustively by TLC on small constants for MemStoreAgree, "
        "RestartReconstructs, ReloadLossless; the same predicates are evaluated by TLC on every state of traces recorded from the "
        "real floatingip.IPAM driven with store faults at every call index, crashes inside multi-call methods and restarts, and "
        "each recorded step must be a step of the specification (conformance).",
   note="Trusted: the harness's in-memory FloatingIP store (API-server semantics), the projection through ByPrefix(\"\"), TLC. "
        "Single-fault and single-crash budgets; model constants 3 IPs/2 pools; real traces up to 6 IPs.",
   tech="TLA+ spec + TLC exhaustive model checking + trace validation of real-code executions with fault/crash injection"),
 "C08": dict(cat="model_checking", ref="DESIGN.md 6 C08",
   text="AllocateInSubnetsAndIPRange is specified call by call (pick, create x k, rollback); TLC checks MultiAllOrNothing on all "
        "bounded range lists, pool states and failing create indices; traces of the real method (random range lists, partially "
        "pre-owned ranges, every failing create index, crash between creates) are validated against the spec and "
        "MultiAllOrNothing / MultiInRangeOrdered are evaluated on every observed step.",
   note="Ranges pairwise disjoint is NOT assumed by the generator (overlapping ranges are generated too); faults after the allocation "
        "(attribute update, cloud assign, pods/binding) are outside the statement. Plugin-level request order is checked by the IPAM-family driver.",
   tech="TLA+ spec + TLC exhaustive model checking + trace validation of real-code executions with create-fault enumeration"),
 "C09": dict(cat="model_checking", ref="DESIGN.md 6 C09",
   text="Reservations (labelled objects + late watch events), reload (list/swap as separate steps in the attack configuration, atomic in the "
        "faithful one) and AllocateSpecificIP's unlocked window are actions of IPAMCoreSpec; TLC checks ReservedNotAllocated, "
        "ReservedObjectKept, OnlyConfigured, ReloadLossless, ReloadDropsExactlyOthers exhaustively on small constants; the driver "
        "injects a concurrent allocate/release right after ConfigurePool's list and before AllocateSpecificIP's create on the real code, "
        "and TLC evaluates the predicates on every observed state.",
   note="Trusted: harness store and watch-event delivery (events for every create/delete of a labelled object, in order). "
        "Admin reservations use a pool-style key with policy never.",
   tech="TLA+ spec + TLC exhaustive model checking + trace validation with operations injected into the reload window"),
}

IPAM_NOTE = ("Trusted: the harness-owned API objects and store (API-server semantics), the gated scheduler (pod/deployment locks replaced through a verif hook), "
             "the projection through ByPrefix(\"\"), TLC. Assumes: only the pod informer lags (in-order events), workload/pool listers fresh, scheduler binds only "
             "on the latest filter result of that pod uid, single clean faults. Model constants are small (1-2 pod names x 2-3 incarnations, 2-3 IPs, <=2 live operations); "
             "real-code traces use up to 4 pod names, 6 IPs, 3 live operations.")
def ipam(text):
    return dict(cat="model_checking", ref="DESIGN.md 6", note=IPAM_NOTE,
                tech="TLA+ spec (one action per code segment) + TLC exhaustive model checking + attack schedules from weakened specs replayed on the real code + trace validation of gated-scheduler executions",
                text=text)
CLAIMED.update({
 "C01": ipam("GalaxyIPAM models filter/bind/unbind/resync/API release/pool update/reload/pod-ip sync as one action per code segment over pods with incarnations, a lagging pod informer, "
             "release events and keyed locks; TLC checks LiveAnnotationsDisjoint and LiveKeepsIP exhaustively on bounded scenarios. The real plugin runs under a deterministic scheduler that parks every "
             "operation at each IPAM/API/lister/cloud/lock call; TLC-generated attack schedules (counterexamples of the model with one guard dropped) and seeded random schedules are executed on the real code, "
             "every recorded step must be a step of the specification, and LiveAnnotationsDisjoint / BoundIPIsKeyedToPod are evaluated on every observed state."),
 "C02": ipam("StickyM (no fresh allocation in bind while the key still holds an IP) is model-checked; on real-code traces StickyBind and ReserveBeforeFresh (a deployment/pool replacement takes a reserved IP of its app that was "
             "visible at its filter and is still reserved and routable) are evaluated at every allocation made by a bind, and FilterTakesReserve (a replacement pod of a reserving deployment or pool whose filter saw IPs of its app in reserve and offers nodes "
             "holds one of them afterwards) at every completed filter, over scenarios with reserving policies, several node subnets, scaling and reschedules."),
 "C03": ipam("ReleaseJustifiedM is model-checked (only the API releases never/pool IPs, nothing held by a live pod is released, immutable statefulset IPs only when the app is gone or scaled below the pod); on real-code traces "
             "ReleaseJustified is evaluated on every step that frees an IP and NoLeakAtQuiescence after the quiescence suffix (all events delivered and handled, one resync pass) that ends every trace; directed scenarios lose a pod's deletion in a restart (provider on) and let two resync passes "
             "run, and the periodic pod-ip sync (operation syncall of the model) works through stale snapshots."),
 "C04": ipam("LiveKeepsIP and NoUnassignWhileLiveM are model-checked with incarnations, informer lag, duplicated/late release events, resync and API release; attack schedules for the guards unbindUid, bindStaleLister, resyncReread, "
             "apiDoubleCheck and the per-operation pod locks are replayed on the real code on every run; LiveKeepsIP / NoUnassignWhileLive are evaluated on every observed step. The periodic pod-ip sync over a stale snapshot (operation syncall; TLC reaches the state in which it re-allocates "
             "a released IP and shows the invariants survive) and an API outage over a whole Bind retry window followed by the scheduler's retry are driven as directed scenarios."),
 "C06": ipam("The filter/bind segments of GalaxyIPAM carry the topology (pool -> node subnets, node -> subnet); on topology scenarios (a pool routable from two node subnets, one from a single subnet, a node outside every pool; "
             "operations one at a time) TLC checks RoutableM, FilterOffersM (holders are offered only nodes that route their IPs; a fresh default-policy pod exactly the nodes with a free routable IP) and FilterImpliesBindM "
             "(after a successful filter with the informer caught up and nothing else happening, the fault-free bind on an offered node succeeds or refuses because an earlier same-named pod still holds the IP). "
             "The driver draws random valid topologies (2-4 pools sharing a pod subnet with disjoint ranges or in a second pod subnet, node subnets shared by pools, a single-host /32 subnet, nodes in no subnet), "
             "pairwise-disjoint requested ranges, template changes between incarnations and restarts, and runs scheduler cycles (filter, then bind, each alone) on the real plugin; the offered node set must equal the model's, and "
             "Routable, IPInfoOfPool (vlan, mask, gateway of the IP's pool), FilterImpliesBind, HolderOfferedRoutableOnly and FreshOfferedExactly are evaluated by TLC on the recorded steps."),
 "C07": ipam("PoolCapM is model-checked on a sized pool shared by two deployments with concurrent filters, binds and unbinds; on real-code traces PoolCap bounds every growth of the pool's IP count by the size the acting operation read, "
             "with concurrent filters, pool create/update with pre-allocation, and the attack schedules for bindPoolSize and the deployment/pool lock."),
 "C10": ipam("The provider's view (ip -> node) is a model variable updated by AssignIP/UnAssignIP; CloudSingleNodeM, LiveAssignedToOwnNode, UnassignBeforeHandoverM are model-checked; on real-code traces with a recording, failable provider "
             "the same predicates are evaluated on every provider call, binding and key change."),
 "C18": dict(cat="exploration", ref="DESIGN.md 6 C18",
   text="Narrow claim. Words.tla: TLC checks termination and exactness of the address-walking loop and the adjacency test for all W-bit words; every FipConf vector is run through the real ConfigurePool at the top of the IPv4 space under a "
        "watchdog; every operation of the IPAM-family traces (filter, preempt, bind, release events, resync, APIs, reload; pods with void argument annotations) runs under the scheduler watchdog with panic capture and deadlock detection; "
        "random NetworkPolicy / pod event histories (every policyTypes, peer and port form of the policy universe) run through the real PolicyManager. Byte-level parser robustness is not decided by this technique.",
   note="Not covered: arbitrary byte strings at the parsing surfaces (a fuzzer's job), the galaxy daemon's typed surfaces beyond what the C12 driver exercises.",
   tech="TLA+ spec of the W-bit loops checked by TLC (liveness) + watchdog/panic observation of real-code executions"),
 "C20": dict(cat="model_checking", ref="DESIGN.md 6 C20",
   text="FipConf.tla defines validity, member set and size of a pool over a W-bit address space in the integers; TLC enumerates every pool with <= 2 (thorough: 2 over 16 addresses) ranges, checks the laws on the specification and emits one vector per pool; "
        "every vector is checked against the real decoder, Size, Contains, enumeration, marshal round trip and InsertIP/RemoveIP at three embeddings including the top of the IPv4 space.",
   note="Bounded exhaustive over the abstract space; the embedding is trusted. Malformed JSON other than reversed ranges is not enumerated.",
   tech="TLA+ spec evaluated exhaustively by TLC to produce expected values + vector replay into the real code"),
})

CLAIMED["C11"] = dict(cat="model_checking", ref="DESIGN.md 6 C11",
   text="KeyCodec.tla specifies the documented key layout and the list/release API entry; TLC enumerates every pod of a bounded universe of DNS-1123 names x owner kinds x pools x namespaces, checks the paging law on the "
        "specification and emits the expected key / decoded fields / API entry per pod; every pod is checked against the real FormatKey/ParseKey (all real keys pairwise distinct), a sample through the real HTTP handlers: "
        "the listed entry posted back verbatim (and with appType omitted for statefulsets) must release exactly that IP and leave another owner's IP alone; release requests with several listed entries of different owner kinds (EntryAddressesOwnKey: the key an entry "
        "addresses depends on that entry alone) must release every one of them; paging with every size shows every IP once.",
   note="Bounded exhaustive over names of length <= 2 (quick) / 3 (thorough); names containing '_' are outside DNS-1123 and not generated.",
   tech="TLA+ spec evaluated exhaustively by TLC to produce expected values + vector replay into the real codec and HTTP handlers")

CLAIMED["C12"] = dict(cat="model_checking", ref="DESIGN.md 6 C12",
   text="CNIMux.tla specifies network selection (annotation in comma and JSON form, ENI network, defaults, interface naming), ADD with rollback, DEL with retry of exactly the failed plugins and the saved list per container; TLC checks "
        "PairLaw/RepeatLaw/RetryLaw on the specification, enumerates all bounded scenarios and computes the expected invocation sequence, response and saved list of every request; a seeded sample of scenarios is executed against the real "
        "galaxy daemon over its unix socket with recording plugin binaries and every invocation (command, network, interface, configuration, CNI_ARGS, previous result) is compared.",
   note="Trusted: the recording plugin, the fake API client for the pod lookup. The daemon's socket and state directory are fixed paths (checks take a file lock). Concurrent requests are exercised only in the thorough tier.",
   tech="TLA+ spec evaluated exhaustively by TLC to produce expected behaviours + replay into the real daemon over its socket")
CLAIMED["C13"] = dict(cat="translation_validation", ref="DESIGN.md 6 C13",
   text="The property is that a composition (FloatingIP objects + pool configuration -> Bind's annotation -> daemon's argument passing -> plugins' decoder) is the identity. Deliver.tla states it and TLC enumerates the pool attribute tuples; "
        "each vector is run end to end through the real Bind, the real daemon and the plugins' own decoder (cni/ipam.Allocate) and the decoded (address, prefix length, gateway, vlan) list is compared with the allocation.",
   note="A specification adds little beyond stating the identity here; the value is the end-to-end run over the enumerated attribute space. Kernel-side configuration by the vendored plugins is not covered.",
   tech="TLC-enumerated input space + end-to-end differential run of the real encoder/transport/decoder chain")

CLAIMED["C17"] = dict(cat="model_checking", ref="DESIGN.md 6 C17",
   text="GC.tla is a behaviour specification of the collector (rounds interleaved with container deaths, runtime outages and a per-container inspect fault: one container whose own inspect keeps failing while the runtime answers for the others); TLC checks NeverCollectLive, FailSafe, PortCleanedBeforeStateFile and the liveness property "
        "EventuallyCollected (weak fairness on rounds) and emits every scenario (container states x runtime phases x per-container inspect fault x failing port clean-up) with the files that must survive each phase; the scenarios run against the real collector started through its "
        "constructor, over real directories, with a fake docker daemon that answers, errs (for every container or for one) or drops connections per phase.",
   note="Trusted: the fake docker daemon (inspect endpoint only). Containerd path and veth clean-up not covered. Time-based rounds: the driver waits for >= 3 inspect rounds per phase.",
   tech="TLA+ behaviour spec checked by TLC (safety + liveness) + scenario vectors replayed into the real collector")

CLAIMED["C14"] = dict(cat="model_checking", ref="DESIGN.md 6 C14",
   text="PortMap.tla abstracts the NAT table (redirect rules, per-mapping chains, stale galaxy chains, foreign rules) and the three entry points; TLC checks CleanIsInverse, OthersUntouched, SyncExact on the specification and enumerates every bounded "
        "history with the table expected after each operation; the histories run on the real PortMappingHandler over a fake NAT table preloaded with stale and foreign chains, and real sockets check that handed-out ports (random too) are distinct, held and released.",
   note="Trusted: the repository's fake iptables. Kernel iptables behaviour is not exercised.",
   tech="TLA+ spec evaluated exhaustively by TLC (laws + expected tables) + history replay into the real handler over a fake NAT table and real sockets")

POL_NOTE = ("Trusted: the strict kernel model harness/polenv/kernel.go (atomic iptables-restore with --noflush semantics, reference checks at the line, refusal to delete what is in use, "
            "hash:net without /0, most-specific-prefix nomatch), the harness's own re-implementation of the GLX-* naming, listers over driver-owned indexers, TLC. "
            "Handlers and synchronisations never overlap in time; the manager synchronises when it starts. Universe: 2 namespaces, 5 pods, 3 policies, 9 addresses, 6 blocks; "
            "not generated: named ports, SCTP, protocol-only ports, matchExpressions, host-network pods, one network both allowed and excepted in one rule.")
CLAIMED["C15"] = dict(cat="model_checking", ref="DESIGN.md 6 C15", note=POL_NOTE,
   text="NetPol.tla defines Derived(cluster): the ipsets, policy chains, pod chains and dispatch rules galaxy's scheme assigns to a cluster state, and the ownership split of the kernel state "
        "(galaxy-owned names vs foreign chains, rules and sets). The real PolicyManager is driven over a strict in-memory kernel through histories of policy/pod/namespace edits (handled or lost), "
        "process restarts, transient kernel failures and repeated full synchronisations, starting from kernels preloaded with foreign state and unexplained GLX-* garbage; TLC evaluates on every recorded line "
        "SyncExact (owned state = Derived after a fault-free synchronisation), Idempotent, ForeignUntouched and NoDanglingBatch (the kernel model refuses and records any submission that references a missing chain or set). "
        "PolicyManager.tla gives every pass and handler as a transition of the kernel state (what is submitted, in which order, what the kernel refuses): every recorded step of the real code must equal the model's step, "
        "and MC_PolicyManager checks over all histories of <= 9 actions of a small universe that foreign state never changes and that every synchronisation ends exact or in one of the two known shapes "
        "(and that the three-phase synchronisation proposed as their repair always ends exact); the shortest model histories into each known shape (TLC counterexamples, spec/polschedules) are replayed on the real code on every run. MC_NetPol checks exhaustively over a small universe that Derived is well formed (references only what it derives).",
   tech="TLA+ behaviour spec of the manager (one transition per pass/handler) model-checked by TLC + step-by-step conformance and property evaluation by TLC on traces of real-code executions over a strict kernel model")
CLAIMED["C16"] = dict(cat="model_checking", ref="DESIGN.md 6 C16", note=POL_NOTE,
   text="NetPol.tla states the Kubernetes NetworkPolicy semantics of a new connection (K8sAllows) and the verdict of a filter table (Walk: first match, jumps and returns, ipset membership with nomatch). "
        "MC_NetPol proves by exhaustive enumeration (every cluster of two pods and one policy built from every peer and port form) that galaxy's scheme without its named departures gives exactly the API verdict, "
        "and that every difference of the scheme as it is falls into a named class. On the real code, at every synchronisation point of the recorded histories TLC walks the kernel state the code left for all 648 flows "
        "of the universe and compares with K8sAllows; differences that the design shows too are reported under their class (known findings), any other difference is a violation; between synchronisations "
        "PodEventKeepsUp checks that handled pod events leave no derived set without a member and the pod's own chain exact.",
   tech="TLA+ reference semantics + packet-walk semantics evaluated by TLC on kernel states produced by the real code; exhaustive TLC check of design vs API semantics on a small universe")

NA = {
 "C19": "data races are below the granularity of an action-level TLA+ specification; deciding them needs a race detector / lock-set analysis, i.e. another technique (DESIGN.md section 1)",
}
NOT_YET = "check not built yet in this session (see DESIGN.md build order); will be claimed when its spec and driver exist"

def main():
    props = [json.loads(l) for l in open(os.path.join(ROOT, "properties.jsonl"))]
    checks, na = [], []
    for p in props:
        pid = p["id"]
        if pid in CLAIMED:
            c = CLAIMED[pid]
            checks.append({
                "property_id": pid,
                "quick_cmd": "./check %s --tier quick" % pid,
                "thorough_cmd": "./check %s --tier thorough" % pid,
                "evidence_file": "/verif/evidence/%s.json" % pid,
                "replay_cmd_template": "./check %s --replay {path}" % pid,
                "engine": "tla-ipam",
                "level_claimed": {"category": c["cat"], "text": c["text"], "design_ref": c["ref"]},
                "level_note": c["note"],
                "technique": c["tech"],
            })
        else:
            na.append({"property_id": pid, "reason": NA.get(pid, NOT_YET)})
    hooks = subprocess.run(["git", "-C", "/repo", "log", "--format=%H %s"], stdout=subprocess.PIPE, text=True).stdout.splitlines()
    hook_commits = [l.split()[0] for l in hooks if "verif hooks" in l]
    m = {
        "version": 1,
        "setup_cmd": "cd /verif/harness && cp /repo/go.sum . && GOFLAGS=-mod=mod GOPROXY=off GOSUMDB=off GOTOOLCHAIN=local go build -tags verif ./... && mkdir -p /verif/.work",
        "hooks": {"guard": "verif", "enable": "go build -tags verif (harness module with replace tkestack.io/galaxy => /repo)",
                  "baseline_off_cmd": BASELINE, "source_commits": hook_commits, "add_only": True},
        "engines": [{"name": "tla-ipam", "path": "/verif/spec", "serves_properties": sorted(CLAIMED),
                     "kind_free_text": "explicit TLA+ specifications checked by TLC; Go harness replays/records real-code traces that TLC validates"}],
        "checks": checks,
        "not_applicable": na,
        "notes": "Single entry point ./check <id> --tier quick|thorough; exit 0 held, 1 VIOLATION (real-code observation only), 2 machinery error. known_findings.json lists open findings and fixed defects.",
    }
    json.dump(m, open(os.path.join(ROOT, "MANIFEST.json"), "w"), indent=1)
    print("claimed", sorted(CLAIMED), "n/a", len(na))

if __name__ == "__main__":
    main()
