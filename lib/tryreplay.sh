#!/bin/bash
# usage: tryreplay.sh <patch> <schedules.json> : apply patch, replay schedules, validate, undo
cd /repo && git apply "$1" || exit 3
trap 'git -C /repo checkout -- .' EXIT
cd /verif/harness && export GOFLAGS=-mod=mod GOPROXY=off GOSUMDB=off GOTOOLCHAIN=local && go build -tags verif -o /verif/.work/ipamdrive_m ./cmd/ipamdrive || exit 2
/verif/.work/ipamdrive_m -schedules "$2" -out /verif/.work/sched_m.ndjson 2>&1 | tail -1
TV_TIMEOUT=300 /verif/lib/tv.sh Trace_GalaxyIPAM trace_ipam.cfg /verif/.work/sched_m.ndjson > /verif/.work/rep_m.json; python3 /verif/lib/sumrep2.py /verif/.work/rep_m.json
