"""C01-C04, C07, C10 (and the plugin-level parts of C05, C06, C08, C09): GalaxyIPAM (TLC) bound to the real
FloatingIPPlugin + API controllers by gated-scheduler traces (ipamdrive) validated against Trace_GalaxyIPAM."""
import json, os, subprocess
import vlib

PROPS = {
    "C01": {"LiveAnnotationsDisjoint", "BoundIPIsKeyedToPod"},
    "C02": {"StickyBind", "ReserveBeforeFresh", "FilterTakesReserve"},
    "C03": {"ReleaseJustified", "NoLeakAtQuiescence"},
    "C04": {"LiveKeepsIP", "NoUnassignWhileLive"},
    "C05": {"MemStoreAgree"},
    "C06": {"Routable", "IPInfoOfPool", "FilterImpliesBind", "HolderOfferedRoutableOnly", "FreshOfferedExactly"},
    "C07": {"PoolCap"},
    "C08": {"MultiInRangeOrdered", "MultiAllOrNothing"},
    "C09": {"NoReservedOrUnconfiguredHandedOut", "ReservedNotAllocated"},
    "C10": {"CloudSingleNode", "LiveAssignedToOwnNode", "LiveStaysAssigned", "UnassignBeforeHandover"},
    "C18": {"NoPanic", "NoHang"},
}
# which scenario families a property draws its traces from (its own first)
FOCUS = {
    "C01": ["c01", "c04", "c09", "syncall"], "C02": ["c02", "c07"], "C03": ["c03", "c02", "c03cloud", "syncall"], "C04": ["c04", "c01", "c10", "c09", "syncall"],
    "C18": ["c04", "c07", "c05"], "C05": ["c05", "syncall"], "C06": ["c06", "c02", "c08"], "C07": ["c07"], "C08": ["c08", "c06"], "C09": ["c09"], "C10": ["c10", "c04"],
}
# a trace is non-trivial for the property if it contains ...
def relevant(pid, lines):
    binds = [e for e in lines if e.get("ev") == "Step" and e.get("call") == "binding" and e.get("ret", {}).get("res") == "ok"]
    pods = {}
    for e in binds:
        pods.setdefault(e["args"]["pod"], set()).add(e["args"]["uid"])
    calls = {e.get("call") for e in lines if e.get("ev") == "Step"}
    evs = {e.get("ev") for e in lines}
    if pid == "C01":
        return len(binds) >= 2 or any(len(u) >= 2 for u in pods.values())
    if pid == "C02":
        return any(len(u) >= 2 for u in pods.values()) or "AllocateInSubnetWithKey" in calls
    if pid == "C03":
        return bool({"ReleaseIPs", "ReserveIP", "Release"} & calls) and len(binds) >= 1
    if pid == "C04":
        return len(binds) >= 1 and bool({"StartUnbind", "StartResync", "StartApiRelease"} & evs)
    if pid == "C05":
        return bool({"Crash", "Restart"} & evs) or any(e.get("crashed") for e in lines) or any(e.get("f", 0) for e in lines if e.get("ev") == "Step")
    if pid == "C06":
        # a scheduler cycle: a filter that ran to its end followed by the start of the bind of the same pod
        for i, e in enumerate(lines):
            if e.get("ev") == "StartBind" and i > 0 and lines[i - 1].get("ev") == "Step" and lines[i - 1].get("typ") == "filter" and "res" in lines[i - 1]:
                return True
        return False
    if pid == "C07":
        return "AllocateInSubnet" in calls or "AllocateInSubnetWithKey" in calls
    if pid == "C08":
        return any(e.get("call") == "AllocateMulti" and len(e["args"]["ranges"]) > 0 for e in lines if e.get("ev") == "Step")
    if pid == "C09":
        return bool({"ChangeConfig", "AdminReserve"} & evs)
    if pid == "C10":
        return "AssignIP" in calls and "UnAssignIP" in calls
    return len(binds) >= 1


def gen(run, focus, n, length, seed, name):
    binp = run.build("ipamdrive")
    out = run.path(name)
    p = subprocess.run([binp, "-seed", str(seed), "-n", str(n), "-len", str(length), "-focus", focus, "-out", out],
                       stdout=subprocess.PIPE, stderr=subprocess.STDOUT, text=True, timeout=3000)
    if p.returncode not in (0, 3):
        raise vlib.Machinery("ipamdrive failed (rc %d):\n%s" % (p.returncode, p.stdout[-2000:]))
    return out


def split(tracefile):
    cur, out = None, {}
    for l in open(tracefile):
        e = json.loads(l)
        if e["ev"] == "Reset":
            cur = e["trace"]
            out[cur] = []
        out[cur].append(e)
    return out


def compact(lines, upto=None):
    """Human-readable excerpt of a trace: actions without the state."""
    out = []
    for e in lines[:upto]:
        k = {x: y for x, y in e.items() if x in ("ev", "op", "typ", "pod", "uid", "node", "call", "args", "ret", "f", "res", "type", "retry", "scenario", "app", "replicas", "ip", "conf")}
        out.append(k)
    return out


def evaluate(run, pid, tracefile, rep, traces):
    props = PROPS[pid]
    seen = set()
    for v in rep["viol"]:
        if v["prop"] not in props:
            continue
        key = (v["trace"], v["prop"])
        if key in seen:
            continue
        seen.add(key)
        sl = traces.get(v["trace"], [])
        first = rep["first_line"].get(v["trace"], 0)
        sig = {"prop": v["prop"], "ev": v["ev"], "typ": v.get("typ", ""), "call": v.get("call", ""), "layer": "plugin", "tag": v.get("tag", ""),
               "scenario": sl[0].get("scenario") if sl else ""}
        run.add_violation(v["prop"], "trace %d (scenario %s) line %d: %s %s %s" % (v["trace"], sig["scenario"], v["line"], v["ev"], v.get("typ", ""), v.get("call", "")),
                          {"property": pid, "predicate": v["prop"], "violating_line_in_file": v["line"], "trace": sl,
                           "how": "recorded from the real FloatingIPPlugin by harness/cmd/ipamdrive under the gated scheduler; "
                                  "re-validate with lib/tv.sh Trace_GalaxyIPAM trace_ipam.cfg <file with these lines>"}, sig)
    for d in rep["div"]:
        run.divergences.append({"layer": "plugin", "trace": d["trace"], "line": d["line"], "ev": d["ev"], "typ": d.get("typ"), "call": d.get("call"), "why": d.get("why")})


def first_lines(tracefile):
    out, n = {}, 0
    for l in open(tracefile):
        n += 1
        if '"ev":"Reset"' in l:
            out[json.loads(l)["trace"]] = n
    return out


def replay_schedules(run, pid):
    """Replay every stored model behaviour (attack schedules from weakened specs, model counterexamples,
    TLC-simulated behaviours) against the real code and judge the recorded executions."""
    import glob
    files = sorted(glob.glob(os.path.join(vlib.SPEC, "schedules", "*.json")))
    allsched = []
    for f in files:
        for s in json.load(open(f)):
            s["file"] = os.path.basename(f)
            allsched.append(s)
    if not allsched:
        return 0
    sf = run.path("schedules.json")
    json.dump(allsched, open(sf, "w"))
    binp = run.build("ipamdrive")
    out = run.path("sched.ndjson")
    p = subprocess.run([binp, "-schedules", sf, "-out", out], stdout=subprocess.PIPE, stderr=subprocess.STDOUT, text=True, timeout=3000)
    if p.returncode not in (0, 3):
        raise vlib.Machinery("ipamdrive -schedules failed (rc %d):\n%s" % (p.returncode, p.stdout[-2000:]))
    rep = run.validate_traces("Trace_GalaxyIPAM", "trace_ipam.cfg", out, timeout=3000)
    traces = split(out)
    rep["first_line"] = first_lines(out)
    evaluate(run, pid, out, rep, traces)
    run.coverage["traces_validated_against_impl"] += rep["stats"]["traces"]
    run.coverage["evaluations"] += rep["stats"]["events"]
    run.coverage["schedules_replayed"] = {"n": len(allsched), "files": [os.path.basename(f) for f in files],
                                          "guards": sorted({s.get("guard", "") for s in allsched})}
    if allsched:
        run.coverage["samples"].append({"attack_schedule": {k: allsched[0][k] for k in ("scenario", "guard", "violated")},
                                        "actions": allsched[0]["schedule"][:30]})
    return len(allsched)


def plugin_traces(run, pid, quick):
    """Generate, validate and evaluate plugin-level traces for property pid."""
    replay_schedules(run, pid)
    foci = FOCUS[pid]
    plan = []
    if quick:
        # (the directed families are small worlds whose rare situations need more traces than a side family gets)
        plan = [(foci[0], 50, 70, run.seed)] + [(f, 40 if f in ("syncall", "c03cloud") else 15, 60, run.seed + 7 * (i + 1)) for i, f in enumerate(foci[1:])]
    else:
        for k in range(4):
            plan += [(foci[0], 250, 80, run.seed * 1000 + k)] + [(f, 80, 70, run.seed * 1000 + 100 + 10 * i + k) for i, f in enumerate(foci[1:])]
    nontriv = set()
    for i, (focus, n, length, seed) in enumerate(plan):
        tf = gen(run, focus, n, length, seed, "ipam-%d.ndjson" % i)
        rep = run.validate_traces("Trace_GalaxyIPAM", "trace_ipam.cfg", tf, timeout=3000)
        traces = split(tf)
        rep["first_line"] = first_lines(tf)
        evaluate(run, pid, tf, rep, traces)
        run.coverage["traces_validated_against_impl"] += rep["stats"]["traces"]
        run.coverage["evaluations"] += rep["stats"]["events"]
        run.coverage.setdefault("conformant_lines", 0)
        run.coverage["conformant_lines"] += rep["stats"]["conform"]
        if pid == "C06":   # how often the C06 predicates had their antecedent (counted by the trace specification)
            for k in ("winfilter", "winfresh", "winholder", "winbind", "winbindwait"):
                run.coverage.setdefault("c06_" + k, 0)
                run.coverage["c06_" + k] += rep["stats"].get(k, 0)
        for tid, lines in traces.items():
            if relevant(pid, lines):
                sig = tuple((e.get("ev"), e.get("typ"), e.get("call"), e.get("f", 0), json.dumps(e.get("ret", {}).get("ok", e.get("ret", {}).get("res")))) for e in lines)
                nontriv.add(hash(sig))
        if i == 0:
            t0 = traces[min(traces)]
            run.coverage["samples"].append({"plugin_trace_excerpt": compact(t0, 25), "scenario": t0[0].get("scenario")})
        os.remove(tf)
    run.coverage["distinct_nontrivial"] += len(nontriv)


ASSUME = [
    "pod informer may lag arbitrarily (events delivered in order); statefulset/deployment/pool listers are up to date",
    "the scheduler binds a pod only on a node returned by the latest successful filter of that very pod (uid)",
    "single fault per operation segment; provider and API-server failures are clean (no effect)",
    "release events are retried at most 3 times, then left to resync (the driver mirrors the plugin's event loop)",
    "the gated scheduler's pod/deployment locks replace the plugin's keymutex through a verif hook; the harness-owned API objects have API-server semantics",
]
