import json,collections,sys
r=json.load(open(sys.argv[1]))
print(r['stats'], 'viol',len(r['viol']))
c=collections.Counter((d['ev'],d['typ'],d['call'],tuple(sorted(d['why']))) for d in r['div'])
for k,v in c.most_common(40): print(v,k)
print('first div lines', sorted(d['line'] for d in r['div'])[:15])
pv=collections.Counter((v['prop'],v['ev'],v.get('typ'),v.get('call')) for v in r['viol'])
for k,v in pv.most_common(20): print('VIOL',v,k)
