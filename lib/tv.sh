#!/bin/bash
# usage: tv.sh <TraceModule> <cfg> <trace.ndjson>  -> prints REPORT json
set -e
W=$(mktemp -d /verif/.work/tv.XXXXXX)
cp /verif/spec/*.tla $W/ && cp /verif/spec/mc/$2 $W/ && cp $3 $W/trace.ndjson
cd $W && timeout ${TV_TIMEOUT:-600} tlc -workers 1 -metadir $W/meta -config $2 $1.tla > $W/out.txt 2>&1 || true
grep -o '"REPORT", ".*"' $W/out.txt | sed 's/^"REPORT", "//; s/"$//; s/\\"/"/g' > $W/report.json || true
if [ ! -s $W/report.json ]; then grep -v "^Parsing\|^Semantic\|^Linting" $W/out.txt | tail -40; fi
cat $W/report.json
rm -rf $W
