package main

import (
	"encoding/json"
	"fmt"
	"os"

	env "verifharness/polenv"
)

// A schedule is a behaviour of MC_PolicyManager (variable hist): policy and pod edits (handled or not), process down and
// restart, synchronisations. The driver replays it on the real PolicyManager and records the same lines as for random
// histories; only the recorded execution is judged.
type polAct struct {
	A       string      `json:"a"`
	Pol     *env.Policy `json:"pol"`
	Pod     *env.PodA   `json:"pod"`
	Key     string      `json:"key"`
	Handled bool        `json:"handled"`
}

type polSchedule struct {
	Violates string   `json:"violates"`
	Schedule []polAct `json:"schedule"`
}

func loadPolSchedules(path string) []polSchedule {
	b, err := os.ReadFile(path)
	if err != nil {
		fmt.Fprintln(os.Stderr, err)
		os.Exit(2)
	}
	var out []polSchedule
	if err := json.Unmarshal(b, &out); err != nil {
		fmt.Fprintln(os.Stderr, "bad schedule file:", err)
		os.Exit(2)
	}
	return out
}

func norm(p *env.Policy) {
	if p.Sel == nil {
		p.Sel = []string{}
	}
	if p.Types == nil {
		p.Types = []string{}
	}
	fix := func(rs []env.PRule) []env.PRule {
		if rs == nil {
			return []env.PRule{}
		}
		for i := range rs {
			if rs[i].Ports == nil {
				rs[i].Ports = []env.Port{}
			}
			if rs[i].Peers == nil {
				rs[i].Peers = []env.Peer{}
			}
			for j := range rs[i].Peers {
				pe := &rs[i].Peers[j]
				if pe.Pod.Labels == nil {
					pe.Pod.Labels = []string{}
				}
				if pe.Ns.Labels == nil {
					pe.Ns.Labels = []string{}
				}
				if pe.Except == nil {
					pe.Except = []string{}
				}
			}
		}
		return rs
	}
	p.Ingress, p.Egress = fix(p.Ingress), fix(p.Egress)
}

func (d *driver) replay(id int, s polSchedule) {
	d.begin(id, env.Cluster{Namespaces: map[string][]string{"na": {"t=x"}, "nb": {"t=y"}}, Pods: map[string]env.PodA{}, Policies: map[string]env.Policy{}}, false)
	c := &d.c
	down := false
	for _, a := range s.Schedule {
		switch a.A {
		case "Sync":
			if !down {
				d.fullSync("resync")
			}
		case "Down":
			down = true
			d.emit(M{"ev": "Down"})
		case "Restart":
			down = false
			d.newPM()
			d.emit(M{"ev": "Restart"})
			d.fullSync("start")
		case "AddPolicy":
			p := *a.Pol
			norm(&p)
			key := p.Name + "_" + p.Ns
			c.Policies[key] = p
			d.api.Load(*c)
			if !down {
				_ = d.pm.AddPolicy(p.Object())
			}
			d.emit(M{"ev": "AddPolicy", "obj": key, "handled": !down})
		case "DeletePolicy":
			p, ok := c.Policies[a.Key]
			if !ok {
				continue
			}
			delete(c.Policies, a.Key)
			d.api.Load(*c)
			if !down {
				_ = d.pm.DeletePolicy(p.Object())
			}
			d.emit(M{"ev": "DeletePolicy", "obj": a.Key, "handled": !down})
		case "AddPod":
			p := *a.Pod
			if p.Labels == nil {
				p.Labels = []string{}
			}
			key := p.Name + "_" + p.Ns
			c.Pods[key] = p
			d.api.Load(*c)
			h := a.Handled && !down
			if h {
				_ = d.pm.AddPod(p.Object())
			}
			d.emit(M{"ev": "AddPod", "obj": key, "handled": h})
		case "PodIP":
			old, ok := c.Pods[a.Key]
			if !ok {
				continue
			}
			p := old
			p.IP = "a" + old.Name[1:]
			c.Pods[a.Key] = p
			d.api.Load(*c)
			h := a.Handled && !down
			if h {
				_ = d.pm.UpdatePod(old.Object(), p.Object())
			}
			d.emit(M{"ev": "UpdatePod", "obj": a.Key, "handled": h})
		case "DeletePod":
			p, ok := c.Pods[a.Key]
			if !ok {
				continue
			}
			delete(c.Pods, a.Key)
			d.api.Load(*c)
			h := a.Handled && !down
			if h {
				_ = d.pm.DeletePod(p.Object())
			}
			d.emit(M{"ev": "DeletePod", "obj": a.Key, "handled": h})
		}
	}
	if down {
		d.newPM()
		d.emit(M{"ev": "Restart"})
	}
	d.fullSync("final")
	d.fullSync("again")
}
