// poldrive drives galaxy's real network-policy manager (pkg/policy) over the strict kernel model of polenv:
// random clusters (namespaces, labelled pods, NetworkPolicies), histories of add/update/delete events (handled,
// or lost while the process was down), restarts, transient kernel failures and full synchronisations. After every
// action it writes one ndjson line with the abstract cluster, the abstract kernel state (ipsets, filter chains) and
// the submissions the kernel refused. Trace_NetPol.tla validates the lines.
package main

import (
	"encoding/json"
	"flag"
	"fmt"
	"io"
	"math/rand"
	"os"
	"sort"

	"k8s.io/klog"
	"tkestack.io/galaxy/pkg/policy"
	"tkestack.io/galaxy/pkg/utils/ipset"
	env "verifharness/polenv"
)

type M = map[string]interface{}

type driver struct {
	rng    *rand.Rand
	out    *json.Encoder
	k      *env.Kernel
	api    *env.API
	pm     *policy.PolicyManager
	c      env.Cluster
	names  map[string]string
	lines  int
	faults int
	// tracked: since the last synchronisation point every cluster edit was handled by the manager (no lost event, no
	// namespace relabel -- which has no handler --, no injected failure)
	tracked bool
}

var (
	nsNames   = []string{"na", "nb"}
	podNames  = []string{"p1", "p2", "p3", "p4", "p5"}
	polNames  = []string{"q1", "q2", "q3"}
	podLabels = []string{"r=a", "r=b", "s=1"}
	nsLabels  = []string{"t=x", "t=y"}
	ports     = []env.Port{{Proto: "tcp", Port: "80"}, {Proto: "tcp", Port: "443"}, {Proto: "udp", Port: "53"}}
)

func (d *driver) subset(xs []string, p int) []string {
	out := []string{}
	for _, x := range xs {
		if d.rng.Intn(100) < p {
			out = append(out, x)
		}
	}
	return out
}

func (d *driver) randSel(pool []string, allowNil bool) env.Sel {
	if allowNil && d.rng.Intn(3) > 0 {
		return env.Sel{Labels: []string{}}
	}
	switch d.rng.Intn(4) {
	case 0:
		return env.Sel{Has: true, Labels: []string{}} // selects everything
	default:
		return env.Sel{Has: true, Labels: []string{pool[d.rng.Intn(len(pool))]}}
	}
}

func (d *driver) randPeer() env.Peer {
	p := env.Peer{Pod: env.Sel{Labels: []string{}}, Ns: env.Sel{Labels: []string{}}, Except: []string{}}
	switch d.rng.Intn(8) {
	case 0, 1, 2:
		p.Pod = d.randSel(podLabels, false)
	case 3, 4:
		p.Ns = d.randSel(nsLabels, false)
	case 5:
		p.Pod, p.Ns = d.randSel(podLabels, false), d.randSel(nsLabels, false)
	default:
		b := [][]string{{"B1"}, {"B1", "B1e"}, {"B2"}, {"B2", "B2e"}, {"B2", "B2h"}, {"B0"}, {"B0", "B2"}, {"B2h"}}[d.rng.Intn(8)]
		p.Block, p.Except = b[0], b[1:]
	}
	return p
}

func (d *driver) randRule() env.PRule {
	r := env.PRule{Ports: []env.Port{}, Peers: []env.Peer{}}
	for i := d.rng.Intn(3); i > 0; i-- {
		r.Ports = append(r.Ports, ports[d.rng.Intn(len(ports))])
	}
	for i := d.rng.Intn(3); i > 0; i-- {
		r.Peers = append(r.Peers, d.randPeer())
	}
	// not generated: one network both allowed by an ipBlock peer and excepted by another peer of the same rule (what the
	// shared hash:net set then holds depends on how `ipset add -exist` treats the flags of an existing element)
	allowed, excepted := map[string]bool{}, map[string]bool{}
	for _, p := range r.Peers {
		if p.Block != "" {
			allowed[p.Block] = true
		}
		for _, e := range p.Except {
			excepted[e] = true
		}
	}
	for b := range allowed {
		if excepted[b] {
			return d.randRule()
		}
	}
	return r
}

func (d *driver) randPolicy(name string) env.Policy {
	p := env.Policy{Name: name, Ns: nsNames[d.rng.Intn(len(nsNames))], Sel: []string{}, Types: []string{}, Ingress: []env.PRule{}, Egress: []env.PRule{}}
	if d.rng.Intn(3) > 0 {
		p.Sel = []string{podLabels[d.rng.Intn(len(podLabels))]}
	}
	p.Types = [][]string{{}, {"Ingress"}, {"Egress"}, {"Ingress", "Egress"}}[d.rng.Intn(4)]
	for i := d.rng.Intn(3); i > 0; i-- {
		p.Ingress = append(p.Ingress, d.randRule())
	}
	for i := d.rng.Intn(3); i > 0; i-- {
		p.Egress = append(p.Egress, d.randRule())
	}
	return p
}

func (d *driver) randPod(i int) env.PodA {
	p := env.PodA{Name: podNames[i], Ns: nsNames[d.rng.Intn(len(nsNames))], Labels: d.subset(podLabels, 45), Local: d.rng.Intn(3) > 0}
	if d.rng.Intn(6) > 0 {
		p.IP = fmt.Sprintf("a%d", i+1)
	}
	// r=a and r=b exclude each other
	if len(p.Labels) >= 2 && p.Labels[0] == "r=a" && p.Labels[1] == "r=b" {
		p.Labels = p.Labels[1:]
	}
	return p
}

func (d *driver) randCluster() env.Cluster {
	c := env.Cluster{Namespaces: map[string][]string{}, Pods: map[string]env.PodA{}, Policies: map[string]env.Policy{}}
	for i, n := range nsNames {
		c.Namespaces[n] = []string{nsLabels[i]}
		if d.rng.Intn(4) == 0 {
			c.Namespaces[n] = []string{nsLabels[d.rng.Intn(2)]}
		}
	}
	for i := range podNames {
		if d.rng.Intn(5) > 0 {
			p := d.randPod(i)
			c.Pods[p.Name+"_"+p.Ns] = p
		}
	}
	for _, n := range polNames {
		if d.rng.Intn(3) > 0 {
			p := d.randPolicy(n)
			c.Policies[p.Name+"_"+p.Ns] = p
		}
	}
	return c
}

func (d *driver) emit(e M) {
	switch e["ev"] {
	case "FullSync":
		d.tracked = e["fault"] != true
	case "AddPolicy", "UpdatePolicy", "DeletePolicy":
		d.tracked = e["handled"] == true
	case "Reset", "Down", "Restart", "RelabelNamespace":
		d.tracked = false
	default:
		d.tracked = d.tracked && e["handled"] == true
	}
	e["tracked"] = d.tracked
	e["cluster"] = d.c
	a := d.k.Abstract(d.names)
	e["sets"], e["chains"] = a.Sets, a.Chains
	e["rejected"] = d.k.TakeRejections()
	d.lines++
	if err := d.out.Encode(e); err != nil {
		panic(err)
	}
}

func (d *driver) newPM() {
	d.pm = policy.VerifNew(&env.IPSets{K: d.k}, &env.IPTables{K: d.k}, env.ThisNode, d.api.PodInformer(), d.api.PodLister(), d.api.NamespaceLister(), d.api.PolicyLister())
}

// foreign state: chains, rules in built-in chains and sets that are not galaxy's
func (d *driver) preloadForeign() {
	t := &env.IPTables{K: d.k}
	s := &env.IPSets{K: d.k}
	_ = s.CreateSet(&ipset.IPSet{Name: "KUBE-SET", SetType: ipset.HashIP}, false)
	_ = s.AddEntry("10.9.9.9", &ipset.IPSet{Name: "KUBE-SET"}, false)
	_, _ = t.EnsureChain("filter", "KUBE-FWD")
	_, _ = t.EnsureChain("filter", "GLXY-OTHER") // not galaxy's prefix GLX-
	_, _ = t.EnsureRule("-A", "filter", "KUBE-FWD", "-m", "set", "--match-set", "KUBE-SET", "src", "-j", "ACCEPT")
	_, _ = t.EnsureRule("-A", "filter", "GLXY-OTHER", "-p", "tcp", "-j", "RETURN")
	_, _ = t.EnsureRule("-A", "filter", "FORWARD", "-j", "KUBE-FWD")
	_, _ = t.EnsureRule("-A", "filter", "INPUT", "-j", "GLXY-OTHER")
	_, _ = t.EnsureRule("-A", "filter", "OUTPUT", "-d", "10.9.9.9", "-j", "DROP")
	d.k.TakeRejections()
}

// garbage with galaxy's prefixes that no current object explains
func (d *driver) preloadGarbage() {
	t := &env.IPTables{K: d.k}
	s := &env.IPSets{K: d.k}
	if d.rng.Intn(2) == 0 {
		_ = s.CreateSet(&ipset.IPSet{Name: "GLX-ip-ZZZZZZZZZZZZZZZZ", SetType: ipset.HashIP}, true)
		_ = s.AddEntry("10.0.0.3", &ipset.IPSet{Name: "GLX-ip-ZZZZZZZZZZZZZZZZ"}, true)
	}
	if d.rng.Intn(2) == 0 {
		_ = s.CreateSet(&ipset.IPSet{Name: "GLX-sip-0-ZZZZZZZZZZZZZZZZ", SetType: ipset.HashIP}, true)
		_, _ = t.EnsureChain("filter", "GLX-PLCY-ZZZZZZZZZZZZZZZZ")
		_, _ = t.EnsureRule("-A", "filter", "GLX-PLCY-ZZZZZZZZZZZZZZZZ", "-p", "all", "-m", "set", "--match-set", "GLX-sip-0-ZZZZZZZZZZZZZZZZ", "src", "-j", "ACCEPT")
	}
	d.k.TakeRejections()
}

func keys(m interface{}) []string {
	var out []string
	switch x := m.(type) {
	case map[string]env.PodA:
		for k := range x {
			out = append(out, k)
		}
	case map[string]env.Policy:
		for k := range x {
			out = append(out, k)
		}
	}
	sort.Strings(out)
	return out
}

// one cluster edit, with the event handler the informer would call (unless the event is lost)
// lost: the process is down. lostPod: it is up but this pod event is not handled before the next action (the pod and the
// policy informers deliver independently; policy events of one informer are always handled in order).
func (d *driver) edit(lost, lostPod bool) {
	c := &d.c
	handled := !lost
	switch k := d.rng.Intn(10); {
	case k < 4: // policy add / update / delete
		name := polNames[d.rng.Intn(len(polNames))]
		var cur *env.Policy
		for _, key := range keys(c.Policies) {
			if p := c.Policies[key]; p.Name == name {
				cp := p
				cur = &cp
			}
		}
		if cur == nil {
			p := d.randPolicy(name)
			c.Policies[p.Name+"_"+p.Ns] = p
			d.api.Load(*c)
			if handled {
				_ = d.pm.AddPolicy(p.Object())
			}
			d.emit(M{"ev": "AddPolicy", "obj": p.Name + "_" + p.Ns, "handled": handled})
		} else if d.rng.Intn(2) == 0 {
			delete(c.Policies, cur.Name+"_"+cur.Ns)
			d.api.Load(*c)
			if handled {
				_ = d.pm.DeletePolicy(cur.Object())
			}
			d.emit(M{"ev": "DeletePolicy", "obj": cur.Name + "_" + cur.Ns, "handled": handled})
		} else {
			p := d.randPolicy(name)
			p.Ns = cur.Ns
			if f, ok := flipBlocks(*cur); ok && d.rng.Intn(2) == 0 {
				p = f // the new version allows a network the old one excepted (or the other way round): same set, other flags
			}
			c.Policies[p.Name+"_"+p.Ns] = p
			d.api.Load(*c)
			if handled {
				_ = d.pm.UpdatePolicy(cur.Object(), p.Object())
			}
			d.emit(M{"ev": "UpdatePolicy", "obj": p.Name + "_" + p.Ns, "handled": handled})
		}
	case k < 9: // pod add / update / delete
		handled = handled && !lostPod
		i := d.rng.Intn(len(podNames))
		var cur *env.PodA
		for _, key := range keys(c.Pods) {
			if p := c.Pods[key]; p.Name == podNames[i] {
				cp := p
				cur = &cp
			}
		}
		if cur == nil {
			p := d.randPod(i)
			p.IP = "" // a pod is created without an address; the address arrives with an update
			c.Pods[p.Name+"_"+p.Ns] = p
			d.api.Load(*c)
			if handled {
				_ = d.pm.AddPod(p.Object())
			}
			d.emit(M{"ev": "AddPod", "obj": p.Name + "_" + p.Ns, "handled": handled})
		} else if d.rng.Intn(3) == 0 {
			delete(c.Pods, cur.Name+"_"+cur.Ns)
			d.api.Load(*c)
			if handled {
				_ = d.pm.DeletePod(cur.Object())
			}
			d.emit(M{"ev": "DeletePod", "obj": cur.Name + "_" + cur.Ns, "handled": handled})
		} else {
			p := *cur
			switch d.rng.Intn(3) {
			case 0:
				p.IP = fmt.Sprintf("a%d", i+1)
			case 1:
				p.Labels = d.randPod(i).Labels
			default:
				p.IP = fmt.Sprintf("a%d", i+1)
				p.Labels = d.randPod(i).Labels
			}
			c.Pods[p.Name+"_"+p.Ns] = p
			d.api.Load(*c)
			if handled {
				_ = d.pm.UpdatePod(cur.Object(), p.Object())
			}
			d.emit(M{"ev": "UpdatePod", "obj": p.Name + "_" + p.Ns, "handled": handled})
		}
	default: // namespace relabelled (galaxy has no handler for namespaces)
		n := nsNames[d.rng.Intn(len(nsNames))]
		c.Namespaces[n] = []string{nsLabels[d.rng.Intn(len(nsLabels))]}
		d.api.Load(*c)
		d.emit(M{"ev": "RelabelNamespace", "obj": n, "handled": false})
	}
}

// flipBlocks derives a version of the policy in which the first ipBlock peer with exceptions allows one of its exceptions
// instead, or the first plain ipBlock peer of a sub-network becomes an exception of its parent network.
func flipBlocks(p env.Policy) (env.Policy, bool) {
	parent := map[string]string{"B1e": "B1", "B2e": "B2", "B2h": "B2"}
	flip := func(rules []env.PRule) ([]env.PRule, bool) {
		out := append([]env.PRule{}, rules...)
		for i, r := range out {
			for j, peer := range r.Peers {
				if peer.Block == "" {
					continue
				}
				np := peer
				if len(peer.Except) > 0 {
					np.Block, np.Except = peer.Except[0], []string{}
				} else if par, ok := parent[peer.Block]; ok {
					np.Block, np.Except = par, []string{peer.Block}
				} else {
					continue
				}
				nr := r
				nr.Peers = append([]env.Peer{}, r.Peers...)
				nr.Peers[j] = np
				// keep the generator's exclusion: no network both allowed and excepted within one rule
				for k, o := range nr.Peers {
					if k != j && o.Block != "" {
						return rules, false
					}
				}
				out[i] = nr
				return out, true
			}
		}
		return rules, false
	}
	q := p
	if in, ok := flip(p.Ingress); ok {
		q.Ingress = in
		return q, true
	}
	if eg, ok := flip(p.Egress); ok {
		q.Egress = eg
		return q, true
	}
	return p, false
}

func (d *driver) fullSync(tag string) {
	d.pm.Run()
	d.emit(M{"ev": "FullSync", "tag": tag})
}

// begin builds a fresh kernel (foreign state, optionally GLX-* garbage), the API objects of the cluster and a manager, writes
// the Reset line and runs the start-up synchronisation.
func (d *driver) begin(id int, c env.Cluster, garbage bool) {
	d.k = env.NewKernel()
	d.api = env.NewAPI()
	var objs []string
	for _, ns := range nsNames {
		for _, p := range podNames {
			objs = append(objs, p+"_"+ns)
		}
		for _, p := range polNames {
			objs = append(objs, p+"_"+ns)
		}
	}
	d.names = env.NameTable(objs)
	d.preloadForeign()
	d.c = c
	d.api.Load(d.c)
	d.newPM()
	if garbage {
		d.preloadGarbage()
	}
	plen, unstorable := env.BlockPrefixLen()
	d.emit(M{"ev": "Reset", "trace": id, "blocks": env.BlockMembers(), "plen": plen, "unstorable": unstorable, "addrs": addrNames()})
	// galaxy synchronises when it starts (Run is the first thing its periodic loop does)
	d.fullSync("start")
}

func (d *driver) runTrace(id, length int) {
	d.begin(id, d.randCluster(), true)
	down := false
	for i := 0; i < length; i++ {
		switch r := d.rng.Intn(20); {
		case r < 11:
			d.edit(down, d.rng.Intn(6) == 0)
		case r < 13 && !down:
			down = true
			d.emit(M{"ev": "Down"})
		case r < 15 && down:
			down = false
			d.newPM()
			d.emit(M{"ev": "Restart"})
			d.fullSync("start")
			d.fullSync("again")
		case r < 18 && !down:
			d.fullSync("resync")
			d.fullSync("again")
		case r == 18 && !down && d.faults > 0:
			// a transient failure of one kernel call during a synchronisation; the next one must repair it
			d.faults--
			d.k.FailAt = 1 + d.rng.Intn(12)
			d.pm.Run()
			f := d.k.FailAt == 0
			d.k.FailAt = 0
			d.emit(M{"ev": "FullSync", "tag": "faulty", "fault": f})
		}
	}
	if down {
		d.newPM()
		d.emit(M{"ev": "Restart"})
	}
	d.fullSync("final")
	d.fullSync("again")
}

func addrNames() []string {
	var out []string
	for a := range env.Addr {
		out = append(out, a)
	}
	sort.Strings(out)
	return out
}

func main() {
	klog.SetOutput(io.Discard)
	fs := flag.NewFlagSet("klog", flag.ContinueOnError)
	klog.InitFlags(fs)
	_ = fs.Set("logtostderr", "false")
	_ = fs.Set("stderrthreshold", "FATAL")
	seed := flag.Int64("seed", 1, "random seed")
	n := flag.Int("n", 20, "number of traces")
	length := flag.Int("len", 12, "actions per trace")
	out := flag.String("out", "", "output ndjson file")
	schedFile := flag.String("schedules", "", "JSON file with model behaviours (MC_PolicyManager hist) to replay instead of random histories")
	flag.Parse()
	_ = os.Setenv("MY_NODE_NAME", env.ThisNode)
	wr := os.Stdout
	if *out != "" {
		f, err := os.Create(*out)
		if err != nil {
			fmt.Fprintln(os.Stderr, err)
			os.Exit(2)
		}
		defer f.Close()
		wr = f
	}
	d := &driver{rng: rand.New(rand.NewSource(*seed)), out: json.NewEncoder(wr)}
	if *schedFile != "" {
		scheds := loadPolSchedules(*schedFile)
		for i, s := range scheds {
			d.replay(i, s)
		}
		fmt.Fprintf(os.Stderr, "poldrive: replayed %d schedules, %d lines\n", len(scheds), d.lines)
		return
	}
	for i := 0; i < *n; i++ {
		d.faults = 1
		d.runTrace(i, *length)
	}
	fmt.Fprintf(os.Stderr, "poldrive: %d traces, %d lines\n", *n, d.lines)
}
