// fakeplugin is a recording CNI plugin: it appends one JSON line per invocation (command, environment, stdin config)
// to $FAKEPLUGIN_LOG, fails when $FAKEPLUGIN_CTL lists (network name, command), and on ADD returns a result whose
// address encodes the container and the network so that a prevResult can be attributed.
package main

import (
	"github.com/containernetworking/cni/pkg/skel"
	t020 "github.com/containernetworking/cni/pkg/types/020"
	galaxyipam "tkestack.io/galaxy/cni/ipam"

	"encoding/json"
	"fmt"
	"io"
	"os"
	"path/filepath"
	"strings"
)

func main() {
	cmd := os.Getenv("CNI_COMMAND")
	stdin, _ := io.ReadAll(os.Stdin)
	if cmd == "VERSION" {
		fmt.Println(`{"cniVersion":"0.2.0","supportedVersions":["0.1.0","0.2.0","0.3.0","0.3.1"]}`)
		return
	}
	var conf map[string]interface{}
	_ = json.Unmarshal(stdin, &conf)
	name, _ := conf["name"].(string)
	rec := map[string]interface{}{
		"cmd": cmd, "plugin": filepath.Base(os.Args[0]), "name": name, "cid": os.Getenv("CNI_CONTAINERID"), "ifname": os.Getenv("CNI_IFNAME"),
		"netns": os.Getenv("CNI_NETNS"), "args": os.Getenv("CNI_ARGS"), "path": os.Getenv("CNI_PATH"), "conf": conf,
	}
	fail := false
	if ctl := os.Getenv("FAKEPLUGIN_CTL"); ctl != "" {
		if b, err := os.ReadFile(ctl); err == nil {
			var rules []struct{ Net, Cmd string }
			_ = json.Unmarshal(b, &rules)
			for _, r := range rules {
				if r.Net == name && r.Cmd == cmd {
					fail = true
				}
			}
		}
	}
	rec["failed"] = fail
	// what the galaxy CNI plugins would configure: decode CNI_ARGS with the plugins' own decoder
	if vlans, results, err := galaxyipam.Allocate("", &skel.CmdArgs{Args: os.Getenv("CNI_ARGS")}); err == nil {
		var dec []map[string]interface{}
		for i, r := range results {
			if r20, ok := r.(*t020.Result); ok && r20.IP4 != nil {
				ones, _ := r20.IP4.IP.Mask.Size()
				dec = append(dec, map[string]interface{}{"addr": r20.IP4.IP.IP.String(), "prefix": ones, "gateway": r20.IP4.Gateway.String(), "vlan": int(vlans[i])})
			}
		}
		rec["decoded"] = dec
	} else {
		rec["decodeerr"] = err.Error()
	}
	if logf := os.Getenv("FAKEPLUGIN_LOG"); logf != "" {
		if f, err := os.OpenFile(logf, os.O_APPEND|os.O_CREATE|os.O_WRONLY, 0644); err == nil {
			b, _ := json.Marshal(rec)
			_, _ = f.Write(append(b, '\n'))
			_ = f.Close()
		}
	}
	if fail {
		fmt.Println(`{"cniVersion":"0.2.0","code":100,"msg":"injected failure"}`)
		os.Exit(1)
	}
	if cmd == "ADD" {
		cid := os.Getenv("CNI_CONTAINERID")
		c := 0
		if i := strings.LastIndexAny(cid, "0123456789"); i >= 0 {
			c = int(cid[i] - '0')
		}
		n := 0
		if len(name) > 0 {
			n = int(name[len(name)-1]-'a') + 1
		}
		fmt.Printf(`{"cniVersion":"0.2.0","ip4":{"ip":"10.%d.%d.2/24","gateway":"10.%d.%d.1"}}`+"\n", c, n, c, n)
	}
}
