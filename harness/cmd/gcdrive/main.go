// gcdrive runs the real garbage collector of the galaxy daemon (gc.NewFlannelGC(...).Run()) over real directories
// with a fake docker daemon (DOCKER_HOST) whose answers follow the scenarios TLC computed from GC.tla: containers
// that are running / exited / dead / absent, and runtime phases in which the daemon answers, answers 500, or is
// unreachable. After each phase (several GC rounds) the surviving files and the port clean-up callbacks are
// compared with the specification. Non-container files in the directories are present in every scenario.
package main

import (
	"encoding/json"
	"flag"
	"fmt"
	"io"
	"math/rand"
	"net"
	"net/http"
	"os"
	"path/filepath"
	"sort"
	"strings"
	"sync"
	"time"

	k8sfake "k8s.io/client-go/kubernetes/fake"
	"k8s.io/klog"
	"tkestack.io/galaxy/pkg/api/docker"
	"tkestack.io/galaxy/pkg/gc"
)

type fileRef struct {
	ID  string `json:"id"`
	Dir string `json:"dir"`
}
type vector struct {
	Ctr     map[string]string `json:"ctr"`
	Phases  []string          `json:"phases"`
	PortErr []string          `json:"porterr"`
	Bad     []string          `json:"bad"`
	Expect  [][]fileRef       `json:"expect"`
}

type fakeDocker struct {
	mu       sync.Mutex
	ctr      map[string]string
	mode     string
	bad      map[string]bool // containers whose inspect answers 500 although the daemon is up
	inspects map[string]int
}

func (f *fakeDocker) ServeHTTP(w http.ResponseWriter, r *http.Request) {
	f.mu.Lock()
	mode := f.mode
	parts := strings.Split(strings.Trim(r.URL.Path, "/"), "/")
	id := ""
	for i, p := range parts {
		if p == "containers" && i+1 < len(parts) {
			id = parts[i+1]
		}
	}
	st := f.ctr[id]
	f.inspects[id]++
	if mode == "up" && f.bad[id] {
		mode = "err"
	}
	f.mu.Unlock()
	switch mode {
	case "down":
		if hj, ok := w.(http.Hijacker); ok {
			if c, _, err := hj.Hijack(); err == nil {
				_ = c.Close()
				return
			}
		}
		w.WriteHeader(http.StatusBadGateway)
	case "err":
		w.WriteHeader(http.StatusInternalServerError)
		_, _ = w.Write([]byte(`{"message":"injected runtime error"}`))
	default:
		if st == "" || st == "absent" {
			w.WriteHeader(http.StatusNotFound)
			_, _ = w.Write([]byte(fmt.Sprintf(`{"message":"No such container: %s"}`, id)))
			return
		}
		w.Header().Set("Content-Type", "application/json")
		_, _ = w.Write([]byte(fmt.Sprintf(`{"Id":%q,"Name":"/k8s_%s","State":{"Status":%q,"Running":%v}}`, id, id, st, st == "running")))
	}
}

func main() {
	klog.SetOutput(io.Discard)
	kfs := flag.NewFlagSet("klog", flag.ContinueOnError)
	klog.InitFlags(kfs)
	_ = kfs.Set("logtostderr", "false")
	_ = kfs.Set("stderrthreshold", "FATAL")
	in := flag.String("vectors", "", "gcvectors.json written by TLC")
	out := flag.String("out", "", "result json")
	work := flag.String("work", "", "scratch directory")
	n := flag.Int("n", 60, "number of scenarios (seeded sample; 0 = all)")
	seed := flag.Int64("seed", 1, "sample seed")
	flag.Parse()
	b, err := os.ReadFile(*in)
	if err != nil {
		fmt.Fprintln(os.Stderr, err)
		os.Exit(2)
	}
	var vf struct{ Vectors []vector }
	if err := json.Unmarshal(b, &vf); err != nil {
		fmt.Fprintln(os.Stderr, err)
		os.Exit(2)
	}
	fd := &fakeDocker{ctr: map[string]string{}, mode: "up", inspects: map[string]int{}}
	ln, err := net.Listen("tcp", "127.0.0.1:0")
	if err != nil {
		fmt.Fprintln(os.Stderr, err)
		os.Exit(2)
	}
	go func() { _ = http.Serve(ln, fd) }()
	os.Setenv("DOCKER_HOST", "tcp://"+ln.Addr().String())
	os.Setenv("DOCKER_API_VERSION", "1.24")
	os.Unsetenv("CONTAINERD_HOST")
	dcli, err := docker.NewDockerInterface()
	if err != nil {
		fmt.Fprintln(os.Stderr, err)
		os.Exit(2)
	}
	interval := 15 * time.Millisecond
	_ = flag.Set("flannel_gc_interval", interval.String())
	idx := rand.New(rand.NewSource(*seed)).Perm(len(vf.Vectors))
	if *n > 0 && *n < len(idx) {
		idx = idx[:*n]
	}
	type finding struct {
		Check  string `json:"check"`
		Vector vector `json:"vector"`
		Phase  int    `json:"phase"`
		Detail string `json:"detail"`
	}
	var findings []finding
	phases := 0
	for k, vi := range idx {
		v := vf.Vectors[vi]
		root := filepath.Join(*work, fmt.Sprintf("gc%d", k))
		stateDir, ipDir := filepath.Join(root, "state"), filepath.Join(root, "networks")
		_ = os.MkdirAll(stateDir, 0755)
		_ = os.MkdirAll(ipDir, 0755)
		ids := []string{}
		for id := range v.Ctr {
			ids = append(ids, id)
		}
		sort.Strings(ids)
		ipOf := map[string]string{}
		for i, id := range ids {
			_ = os.WriteFile(filepath.Join(stateDir, id), []byte(`[{"NetworkType":"x"}]`), 0644)
			ipOf[id] = fmt.Sprintf("172.16.0.%d", 10+i)
			content := id + "\neth0"
			if i%2 == 1 {
				content = id + "\r\neth0"
			}
			_ = os.WriteFile(filepath.Join(ipDir, ipOf[id]), []byte(content), 0644)
		}
		// files that are not container state: must survive in the ip directory (not an ip name)
		_ = os.WriteFile(filepath.Join(ipDir, "last_reserved_ip.0"), []byte("172.16.0.10"), 0644)
		_ = os.WriteFile(filepath.Join(ipDir, "lock"), nil, 0644)
		_ = os.MkdirAll(filepath.Join(stateDir, "port"), 0755)
		fd.mu.Lock()
		fd.ctr = map[string]string{}
		for id, st := range v.Ctr {
			fd.ctr[id] = st
		}
		fd.mode = v.Phases[0]
		fd.bad = map[string]bool{}
		for _, id := range v.Bad {
			fd.bad[id] = true
		}
		fd.mu.Unlock()
		_ = flag.Set("gc_dirs", stateDir)
		_ = flag.Set("flannel_allocated_ip_dir", ipDir)
		var pmu sync.Mutex
		cleaned := map[string]bool{}
		quit := make(chan struct{})
		gc.NewFlannelGC(k8sfake.NewSimpleClientset(), dcli, quit, func(cid string) error {
			pmu.Lock()
			cleaned[cid] = true
			pmu.Unlock()
			for _, bad := range v.PortErr {
				if bad == cid {
					return fmt.Errorf("failed to read ports: injected")
				}
			}
			return nil
		}).Run()
		for pi, mode := range v.Phases {
			phases++
			fd.mu.Lock()
			fd.mode = mode
			fd.inspects = map[string]int{}
			fd.mu.Unlock()
			// wait until every id has been inspected in at least 3 further rounds (or a generous time bound)
			deadline := time.Now().Add(60 * interval)
			for time.Now().Before(deadline) {
				time.Sleep(interval)
				fd.mu.Lock()
				done := true
				for _, id := range ids {
					if _, e1 := os.Stat(filepath.Join(stateDir, id)); e1 == nil && fd.inspects[id] < 3 {
						done = false
					}
				}
				fd.mu.Unlock()
				if done && time.Until(deadline) < 52*interval {
					break
				}
			}
			want := map[string]bool{}
			for _, f := range v.Expect[pi] {
				want[f.Dir+"/"+f.ID] = true
			}
			for _, id := range ids {
				_, e1 := os.Stat(filepath.Join(stateDir, id))
				_, e2 := os.Stat(filepath.Join(ipDir, ipOf[id]))
				for _, c := range []struct {
					dir    string
					exists bool
				}{{"state", e1 == nil}, {"ip", e2 == nil}} {
					if c.exists != want[c.dir+"/"+id] {
						check := "eventually-collected"
						if !c.exists {
							check = "collected-live-or-blind"
						}
						findings = append(findings, finding{Check: check, Vector: v, Phase: pi,
							Detail: fmt.Sprintf("%s file of container %s (%s, runtime %s, inspect fails for %v) exists=%v, expected %v", c.dir, id, v.Ctr[id], mode, v.Bad, c.exists, want[c.dir+"/"+id])})
					}
				}
				pmu.Lock()
				cl := cleaned[id]
				pmu.Unlock()
				if e1 != nil && !cl {
					findings = append(findings, finding{Check: "port-cleanup-before-state-file", Vector: v, Phase: pi, Detail: "state file of " + id + " removed without the port clean-up callback"})
				}
				if cl && want["state/"+id] {
					findings = append(findings, finding{Check: "collected-live-or-blind", Vector: v, Phase: pi, Detail: "port mappings of " + id + " (" + v.Ctr[id] + ", runtime " + mode + ") were cleaned"})
				}
			}
			for _, nm := range []string{"last_reserved_ip.0", "lock"} {
				if _, e := os.Stat(filepath.Join(ipDir, nm)); e != nil {
					findings = append(findings, finding{Check: "non-container-file", Vector: v, Phase: pi, Detail: nm + " was removed from the ip directory"})
				}
			}
		}
		close(quit)
		time.Sleep(2 * interval)
		_ = os.RemoveAll(root)
	}
	res := map[string]interface{}{"vectors_total": len(vf.Vectors), "vectors_run": len(idx), "phases": phases, "findings": findings}
	ob, _ := json.MarshalIndent(res, "", " ")
	if *out != "" {
		_ = os.WriteFile(*out, ob, 0644)
	}
	fmt.Fprintf(os.Stderr, "gcdrive: %d scenarios, %d phases, %d findings\n", len(idx), phases, len(findings))
}
