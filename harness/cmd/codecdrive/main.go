// codecdrive feeds the pods enumerated by TLC from KeyCodec.tla (with the key, decoded fields and API entry the
// specification expects) to the real util.FormatKey / util.ParseKey, and a sample of them through the real HTTP
// handlers of the IPAM API: allocate under the key, GET /v1/ip, post the returned entry back (verbatim, and with
// appType omitted for statefulsets) and page through the list with every page size.
package main

import (
	"bytes"
	"encoding/json"
	"flag"
	"fmt"
	"io"
	"net/http/httptest"
	"os"
	"sort"

	restful "github.com/emicklei/go-restful"
	corev1 "k8s.io/api/core/v1"
	metav1 "k8s.io/apimachinery/pkg/apis/meta/v1"
	"k8s.io/klog"
	"tkestack.io/galaxy/pkg/api/galaxy/constant"
	"tkestack.io/galaxy/pkg/ipam/api"
	"tkestack.io/galaxy/pkg/ipam/floatingip"
	"tkestack.io/galaxy/pkg/ipam/schedulerplugin/util"
	env "verifharness/ipamenv"
)

type vector struct {
	Kind, App, Pod, Ns, Pool, Key string
	Dec                           struct{ Pool, Prefix, Ns, App, Pod string }
	Entry                         struct{ Namespace, AppName, PodName, PoolName, AppType string }
}

type finding struct {
	Check  string      `json:"check"`
	Kind   string      `json:"kind"`
	Vector interface{} `json:"vector"`
	Detail string      `json:"detail"`
}

func podOf(v vector) *corev1.Pod {
	p := &corev1.Pod{ObjectMeta: metav1.ObjectMeta{Name: v.Pod, Namespace: v.Ns, Annotations: map[string]string{}}}
	switch v.Kind {
	case "StatefulSet":
		p.OwnerReferences = []metav1.OwnerReference{{Kind: "StatefulSet", Name: v.App}}
	case "ReplicaSet":
		p.OwnerReferences = []metav1.OwnerReference{{Kind: "ReplicaSet", Name: v.App + "-5c9f7"}}
	case "none":
	default:
		p.OwnerReferences = []metav1.OwnerReference{{Kind: v.Kind, Name: v.App}}
	}
	if v.Pool != "" {
		p.Annotations[constant.IPPoolAnnotation] = v.Pool
	}
	return p
}

type apiEnv struct {
	w *env.World
	c *restful.Container
}

func newAPI() *apiEnv { return newAPIWith(false) }

// newAPIWith(wide): the pool spans two /24 blocks (10.0.0.250 ~ 10.0.1.5), so that addresses differ outside the last octet
func newAPIWith(wide bool) *apiEnv {
	cfg := []env.Config{{{ID: "p1", Subnets: []string{"s1"}, IPs: []string{"ip1", "ip2", "ip3", "ip4", "ip5", "ip6"}}}}
	if wide {
		cfg = []env.Config{{{ID: "p1", Subnets: []string{"s1"}, IPs: []string{}, RawSubnet: "10.0.0.0/16", RawGateway: "10.0.0.1", RawVlan: 1,
			RawIPs: []string{"10.0.0.250~10.0.1.5"}}}}
	}
	w := env.NewWorld(cfg, map[string]string{"n1": "s1"}, false)
	if err := w.StartProcess(); err != nil {
		panic(err)
	}
	c := restful.NewContainer()
	ws := new(restful.WebService)
	ws.Path("/v1").Consumes(restful.MIME_JSON).Produces(restful.MIME_JSON)
	ctl := api.NewController(w.Plugin.GetIpam(), w.Plugin.PodLister, w.Plugin.Release)
	ws.Route(ws.GET("/ip").To(ctl.ListIPs))
	ws.Route(ws.POST("/ip").To(ctl.ReleaseIPs))
	c.Add(ws)
	return &apiEnv{w: w, c: c}
}

func (a *apiEnv) do(method, url string, body interface{}) (int, []byte) {
	var rd io.Reader
	if body != nil {
		b, _ := json.Marshal(body)
		rd = bytes.NewReader(b)
	}
	req := httptest.NewRequest(method, url, rd)
	req.Header.Set("Content-Type", "application/json")
	req.Header.Set("Accept", "application/json")
	rec := httptest.NewRecorder()
	a.c.ServeHTTP(rec, req)
	return rec.Code, rec.Body.Bytes()
}

func (a *apiEnv) keyOf(ip string) string {
	f, _ := a.w.Inner.ByIP(env.IPAddr(ip))
	return f.Key
}

func (a *apiEnv) list(q string) ([]api.FloatingIP, *api.ListIPResp) {
	code, b := a.do("GET", "/v1/ip?"+q, nil)
	var l api.ListIPResp
	if code != 200 || json.Unmarshal(b, &l) != nil {
		return nil, nil
	}
	return l.Content, &l
}

func main() {
	klog.SetOutput(io.Discard)
	kfs := flag.NewFlagSet("klog", flag.ContinueOnError)
	klog.InitFlags(kfs)
	_ = kfs.Set("logtostderr", "false")
	_ = kfs.Set("stderrthreshold", "FATAL")
	in := flag.String("vectors", "", "keyvectors.json written by TLC")
	out := flag.String("out", "", "result json")
	every := flag.Int("api-every", 7, "run every k-th vector through the HTTP API")
	maxN := flag.Int("maxn", 6, "largest list for the paging check")
	maxBatches := flag.Int("batches", 150, "number of three-entry groups posted as one release request (each in two orders)")
	flag.Parse()
	b, err := os.ReadFile(*in)
	if err != nil {
		fmt.Fprintln(os.Stderr, err)
		os.Exit(2)
	}
	var f struct{ Vectors []vector }
	if err := json.Unmarshal(b, &f); err != nil {
		fmt.Fprintln(os.Stderr, err)
		os.Exit(2)
	}
	var findings []finding
	add := func(check string, v vector, detail string) {
		if len(findings) < 300 {
			findings = append(findings, finding{Check: check, Kind: v.Kind, Vector: v, Detail: detail})
		}
	}
	seen := map[string]vector{}
	codec, apiRuns := 0, 0
	var prevKey string
	for i, v := range f.Vectors {
		codec++
		pod := podOf(v)
		ko, err := util.FormatKey(pod)
		if err != nil {
			add("format", v, "FormatKey error: "+err.Error())
			continue
		}
		if ko.KeyInDB != v.Key {
			add("format", v, fmt.Sprintf("FormatKey=%q, expected %q", ko.KeyInDB, v.Key))
		}
		if o, dup := seen[ko.KeyInDB]; dup && (o.Ns != v.Ns || o.Pod != v.Pod || o.Pool != v.Pool) {
			add("injective", v, fmt.Sprintf("same key %q as pod %s/%s pool %q", ko.KeyInDB, o.Ns, o.Pod, o.Pool))
		}
		seen[ko.KeyInDB] = v
		pk := util.ParseKey(ko.KeyInDB)
		if pk.PoolName != v.Dec.Pool || pk.AppTypePrefix != v.Dec.Prefix || pk.Namespace != v.Dec.Ns || pk.AppName != v.Dec.App || pk.PodName != v.Dec.Pod {
			add("roundtrip", v, fmt.Sprintf("ParseKey(%q) = pool %q prefix %q ns %q app %q pod %q", ko.KeyInDB, pk.PoolName, pk.AppTypePrefix, pk.Namespace, pk.AppName, pk.PodName))
		}
		if i%*every != 0 {
			prevKey = ko.KeyInDB
			continue
		}
		// ---- through the HTTP API
		apiRuns++
		a := newAPI()
		ip, err := a.w.Inner.AllocateInSubnet(ko.KeyInDB, env.SubnetNet("s1"), floatingip.Attr{})
		if err != nil {
			add("api-setup", v, err.Error())
			continue
		}
		var other string
		if prevKey != "" && prevKey != ko.KeyInDB {
			if oip, err := a.w.Inner.AllocateInSubnet(prevKey, env.SubnetNet("s1"), floatingip.Attr{}); err == nil {
				other = env.IPName(oip)
			}
		}
		name := env.IPName(ip)
		content, _ := a.list("size=100")
		var entry *api.FloatingIP
		for j := range content {
			if content[j].IP == ip.String() {
				entry = &content[j]
			}
		}
		if entry == nil {
			add("list", v, "allocated ip not shown by GET /v1/ip")
			continue
		}
		if entry.Namespace != v.Entry.Namespace || entry.AppName != v.Entry.AppName || entry.PodName != v.Entry.PodName || entry.PoolName != v.Entry.PoolName || entry.AppType != v.Entry.AppType {
			add("list-entry", v, fmt.Sprintf("entry ns %q app %q pod %q pool %q type %q, expected %+v", entry.Namespace, entry.AppName, entry.PodName, entry.PoolName, entry.AppType, v.Entry))
		}
		post := func(e api.FloatingIP, how string) {
			code, body := a.do("POST", "/v1/ip", api.ReleaseIPReq{IPs: []api.FloatingIP{e}})
			if a.keyOf(name) != "" {
				add("list-then-release", v, fmt.Sprintf("posting the listed entry back (%s) did not release %s: http %d %s", how, name, code, string(body)))
			}
			if other != "" && a.keyOf(other) != prevKey {
				add("release-addresses-other", v, fmt.Sprintf("posting the entry of %q (%s) changed the ip of %q", ko.KeyInDB, how, prevKey))
			}
		}
		post(*entry, "verbatim")
		// a stale entry: the ip was listed under this owner, then moved to another owner with the same namespace and pod
		// name (another pool); posting the old entry again must not touch the new owner's ip
		if _, err := a.w.Inner.AllocateInSubnet(ko.KeyInDB, env.SubnetNet("s1"), floatingip.Attr{}); err == nil {
			f3, _ := a.w.Inner.ByKeyAndIPRanges(ko.KeyInDB, nil)
			v2 := v
			if v.Pool == "" {
				v2.Pool = "q"
			} else {
				v2.Pool = ""
			}
			ko2, _ := util.FormatKey(podOf(v2))
			if len(f3) > 0 && ko2 != nil && ko2.KeyInDB != ko.KeyInDB {
				ip3 := env.IPName(f3[0].IP)
				stale := *entry
				stale.IP = f3[0].IP.String()
				if _, err := a.w.Inner.ReserveIP(ko.KeyInDB, ko2.KeyInDB, floatingip.Attr{}); err == nil {
					_, _ = a.do("POST", "/v1/ip", api.ReleaseIPReq{IPs: []api.FloatingIP{stale}})
					if a.keyOf(ip3) != ko2.KeyInDB {
						add("release-addresses-other", v, fmt.Sprintf("posting the stale entry of %q released/changed %s which now belongs to %q (key now %q)", ko.KeyInDB, ip3, ko2.KeyInDB, a.keyOf(ip3)))
					}
				}
			}
		}
		if v.Kind == "StatefulSet" {
			if _, err := a.w.Inner.AllocateInSubnet(ko.KeyInDB, env.SubnetNet("s1"), floatingip.Attr{}); err == nil {
				f2, _ := a.w.Inner.ByKeyAndIPRanges(ko.KeyInDB, nil)
				if len(f2) > 0 {
					name = env.IPName(f2[0].IP)
					e2 := *entry
					e2.IP = f2[0].IP.String()
					e2.AppType = ""
					post(e2, "appType omitted")
				}
			}
		}
		prevKey = ko.KeyInDB
	}
	// ---- batches: one POST with several listed entries releases every one of them, whatever the other entries of the
	// request are (KeyCodec.EntryKey depends on the entry alone): groups of three sampled pods with distinct keys, the
	// statefulset entries with appType omitted, in list order and reversed
	batches := 0
	var group []vector
	flush := func() {
		defer func() { group = nil }()
		for _, rev := range []bool{false, true} {
			a := newAPI()
			names := map[string]string{} // ip string -> ip name
			for _, gv := range group {
				ko, err := util.FormatKey(podOf(gv))
				if err != nil {
					return
				}
				ip, err := a.w.Inner.AllocateInSubnet(ko.KeyInDB, env.SubnetNet("s1"), floatingip.Attr{})
				if err != nil {
					return
				}
				names[ip.String()] = env.IPName(ip)
			}
			content, _ := a.list("size=100")
			var entries []api.FloatingIP
			for _, e := range content {
				if _, ok := names[e.IP]; ok {
					if e.AppType == "statefulset" {
						e.AppType = ""
					}
					entries = append(entries, e)
				}
			}
			// deployments and other kinds first, so that an entry without appType follows one that carries another type
			sort.SliceStable(entries, func(i, j int) bool { return (entries[i].AppType != "") && (entries[j].AppType == "") })
			if rev {
				for i, j := 0, len(entries)-1; i < j; i, j = i+1, j-1 {
					entries[i], entries[j] = entries[j], entries[i]
				}
			}
			batches++
			code, body := a.do("POST", "/v1/ip", api.ReleaseIPReq{IPs: entries})
			for ipStr, name := range names {
				if a.keyOf(name) != "" {
					add("list-then-release", group[0], fmt.Sprintf("batch of %d listed entries (statefulset appType omitted, reversed=%v): %s (%s) was not released: http %d %s", len(entries), rev, name, ipStr, code, string(body)))
				}
			}
		}
	}
	gkeys := map[string]bool{}
	for i, v := range f.Vectors {
		if i%*every != 0 || batches >= 2*(*maxBatches) {
			continue
		}
		if gkeys[v.Key] {
			continue
		}
		// mix kinds inside a group: take the vector only if its kind differs from the last one's
		if len(group) > 0 && group[len(group)-1].Kind == v.Kind {
			continue
		}
		gkeys[v.Key] = true
		group = append(group, v)
		if len(group) == 3 {
			flush()
			gkeys = map[string]bool{}
		}
	}
	// ---- paging: n allocated ips, every page size
	pagings := 0
	for n := 0; n <= *maxN; n++ {
		a := newAPIWith(n%2 == 0)
		var want []string
		for i := 0; i < n; i++ {
			ip, err := a.w.Inner.AllocateInSubnet(fmt.Sprintf("sts_ns_s_s-%d", i), env.SubnetNet("s1"), floatingip.Attr{})
			if err != nil {
				panic(err)
			}
			want = append(want, ip.String())
		}
		sort.Strings(want)
		for size := 1; size <= n+1; size++ {
			pagings++
			var got []string
			for page := 0; page < 20; page++ {
				_, resp := a.list(fmt.Sprintf("keyword=sts_&size=%d&page=%d", size, page))
				if resp == nil {
					break
				}
				for _, e := range resp.Content {
					got = append(got, e.IP)
				}
				if resp.Last {
					break
				}
			}
			// several rounds: the listing comes from a Go map, its iteration order differs from call to call
			for round := 0; round < 6 && fmt.Sprint(got) == fmt.Sprint(want); round++ {
				got = nil
				for page := 0; page < 20; page++ {
					_, resp := a.list(fmt.Sprintf("keyword=sts_&size=%d&page=%d", size, page))
					if resp == nil {
						break
					}
					for _, e := range resp.Content {
						got = append(got, e.IP)
					}
					if resp.Last {
						break
					}
				}
			}
			if fmt.Sprint(got) != fmt.Sprint(want) {
				findings = append(findings, finding{Check: "paging", Kind: "", Vector: map[string]int{"n": n, "size": size}, Detail: fmt.Sprintf("pages give %v, expected %v", got, want)})
			}
		}
	}
	res := map[string]interface{}{"vectors": len(f.Vectors), "codec": codec, "api": apiRuns, "batches": batches, "pagings": pagings, "findings": findings}
	ob, _ := json.MarshalIndent(res, "", " ")
	if *out != "" {
		_ = os.WriteFile(*out, ob, 0644)
	}
	fmt.Fprintf(os.Stderr, "codecdrive: %d vectors, %d through the API, %d pagings, %d findings\n", len(f.Vectors), apiRuns, pagings, len(findings))
}
