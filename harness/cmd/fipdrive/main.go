// fipdrive feeds the test vectors computed by TLC from FipConf.tla (every pool configuration with a bounded number
// of ranges over a W-bit address space, with its expected validity, size and member set) to the real decoder,
// Size, Contains, the address walk used by ConfigurePool, MarshalJSON and InsertIP/RemoveIP, at three embeddings
// of the W-bit space into IPv4 (10.0.0.0, 0.0.0.0 and the very top of the space).
package main

import (
	"encoding/json"
	"flag"
	"fmt"
	"io"
	"net"
	"os"
	"sort"
	"strings"
	"time"

	"k8s.io/klog"
	"tkestack.io/galaxy/pkg/ipam/floatingip"
	"tkestack.io/galaxy/pkg/utils/nets"
	env "verifharness/ipamenv"
)

type vector struct {
	G       int     `json:"g"`
	M       int     `json:"m"`
	D       int     `json:"d"`
	Ranges  [][]int `json:"ranges"`
	Valid   bool    `json:"valid"`
	Size    int     `json:"size"`
	Members []int   `json:"members"`
}

type file struct {
	W       int      `json:"w"`
	Vectors []vector `json:"vectors"`
}

type finding struct {
	Check     string      `json:"check"`
	Embedding string      `json:"embedding"`
	Vector    vector      `json:"vector"`
	Config    string      `json:"config"`
	Detail    string      `json:"detail"`
	EndsAtMax bool        `json:"ends_at_max"`
	Got       interface{} `json:"got,omitempty"`
}

func ipAt(base uint32, a int) net.IP { return nets.IntToIP(base + uint32(a)) }

func confJSON(base uint32, w int, v vector, idx int) string {
	var ips []string
	for i, r := range v.Ranges {
		if r[0] == r[1] && (idx+i)%2 == 0 {
			ips = append(ips, ipAt(base, r[0]).String())
		} else {
			ips = append(ips, ipAt(base, r[0]).String()+"~"+ipAt(base, r[1]).String())
		}
	}
	if ips == nil {
		ips = []string{}
	}
	start := v.D
	c := map[string]interface{}{
		"nodeSubnets": []string{"10.100.0.0/24"},
		"ips":         ips,
		"subnet":      fmt.Sprintf("%s/%d", ipAt(base, start).String(), 32-w+v.M),
		"gateway":     ipAt(base, v.G).String(),
		"vlan":        2,
	}
	b, _ := json.Marshal(c)
	return string(b)
}

// withWatchdog runs f; false means f did not return in time (the goroutine is leaked).
func withWatchdog(d time.Duration, f func()) bool {
	done := make(chan struct{})
	go func() { defer close(done); f() }()
	select {
	case <-done:
		return true
	case <-time.After(d):
		return false
	}
}

func main() {
	klog.SetOutput(io.Discard)
	kfs := flag.NewFlagSet("klog", flag.ContinueOnError)
	klog.InitFlags(kfs)
	_ = kfs.Set("logtostderr", "false")
	_ = kfs.Set("stderrthreshold", "FATAL")
	in := flag.String("vectors", "", "vectors.json written by TLC")
	out := flag.String("out", "", "result json")
	sample := flag.Int("every", 1, "use every k-th vector")
	flag.Parse()
	b, err := os.ReadFile(*in)
	if err != nil {
		fmt.Fprintln(os.Stderr, err)
		os.Exit(2)
	}
	var f file
	if err := json.Unmarshal(b, &f); err != nil {
		fmt.Fprintln(os.Stderr, err)
		os.Exit(2)
	}
	top := uint32(1)<<uint(f.W) - 1
	embeddings := []struct {
		name string
		base uint32
	}{{"10.0.0.0", nets.IPToInt(net.ParseIP("10.0.0.0"))}, {"0.0.0.0", 0}, {"top", ^uint32(0) - top}}
	var findings []finding
	evals, hangs, skippedWalks := 0, 0, 0
	add := func(fd finding) {
		if len(findings) < 400 {
			findings = append(findings, fd)
		}
	}
	for idx, v := range f.Vectors {
		if idx%*sample != 0 {
			continue
		}
		for _, e := range embeddings {
			evals++
			conf := confJSON(e.base, f.W, v, idx)
			endsAtMax := false
			for _, r := range v.Ranges {
				if e.name == "top" && (uint32(r[1]) == top || uint32(r[0]) == top) {
					endsAtMax = true
				}
			}
			mk := func(check, detail string, got interface{}) finding {
				return finding{Check: check, Embedding: e.name, Vector: v, Config: conf, Detail: detail, EndsAtMax: endsAtMax, Got: got}
			}
			var pool floatingip.FloatingIPPool
			derr := json.Unmarshal([]byte(conf), &pool)
			if (derr == nil) != v.Valid {
				add(mk("accept-iff-valid", fmt.Sprintf("decoder error=%v, specification says valid=%v", derr, v.Valid), nil))
				continue
			}
			if derr != nil {
				continue
			}
			if int(pool.Size()) != v.Size {
				add(mk("size", fmt.Sprintf("Size()=%d, expected %d", pool.Size(), v.Size), nil))
			}
			mem := map[int]bool{}
			for _, m := range v.Members {
				mem[m] = true
			}
			for a := 0; a <= int(top); a++ {
				if pool.Contains(ipAt(e.base, a)) != mem[a] {
					add(mk("contains", fmt.Sprintf("Contains(%s)=%v, expected %v", ipAt(e.base, a), !mem[a], mem[a]), nil))
				}
			}
			// enumeration: the walk ConfigurePool does over the ranges
			var got []int
			if hangs >= 3 && endsAtMax {
				// the walk is known not to terminate for ranges ending at the maximum address: every further
				// attempt would leak one more spinning goroutine
				skippedWalks++
				continue
			}
			ok := withWatchdog(2*time.Second, func() {
				store := env.NewFipStore()
				ipam := floatingip.NewCrdIPAM(store.Client(), nil)
				var p2 floatingip.FloatingIPPool
				if err := json.Unmarshal([]byte(conf), &p2); err != nil {
					got = []int{-2}
					return
				}
				if err := ipam.ConfigurePool([]*floatingip.FloatingIPPool{&p2}); err != nil {
					got = []int{-1}
					return
				}
				all, _ := ipam.ByPrefix("")
				for _, x := range all {
					got = append(got, int(nets.IPToInt(x.IP)-e.base))
				}
			})
			if !ok {
				hangs++
				add(mk("enumerate-terminates", "ConfigurePool did not return within 2s (address walk does not terminate)", nil))
			} else {
				sort.Ints(got)
				want := append([]int{}, v.Members...)
				sort.Ints(want)
				if fmt.Sprint(got) != fmt.Sprint(want) {
					add(mk("enumerate", fmt.Sprintf("enumerated %v, expected %v", got, want), got))
				}
			}
			// round trip
			mb, merr := pool.MarshalJSON()
			var back floatingip.FloatingIPPool
			if merr != nil || json.Unmarshal(mb, &back) != nil {
				add(mk("roundtrip", fmt.Sprintf("marshal/unmarshal failed: %v", merr), string(mb)))
			} else {
				same := len(back.IPRanges) == len(pool.IPRanges) && back.Gateway.Equal(pool.Gateway) && back.Mask.String() == pool.Mask.String() && back.Vlan == pool.Vlan &&
					len(back.NodeSubnets) == len(pool.NodeSubnets)
				for i := range back.IPRanges {
					if same && back.IPRanges[i].String() != pool.IPRanges[i].String() {
						same = false
					}
				}
				if !same {
					add(mk("roundtrip", "decode(encode(pool)) differs from pool", string(mb)))
				}
			}
			// insert / remove laws on a copy
			for a := 0; a <= int(top); a += 1 + int(top)/4 {
				cp := floatingip.FloatingIPPool{SparseSubnet: nets.SparseSubnet{Gateway: pool.Gateway, Mask: pool.Mask, Vlan: pool.Vlan}}
				cp.IPRanges = append([]nets.IPRange{}, pool.IPRanges...)
				inSub := pool.IPNet().Contains(ipAt(e.base, a))
				r := cp.InsertIP(ipAt(e.base, a))
				if r != (inSub && !mem[a]) {
					add(mk("insert", fmt.Sprintf("InsertIP(%s)=%v, expected %v", ipAt(e.base, a), r, inSub && !mem[a]), nil))
				} else if r {
					for x := 0; x <= int(top); x++ {
						if cp.Contains(ipAt(e.base, x)) != (mem[x] || x == a) {
							add(mk("insert", fmt.Sprintf("after InsertIP(%s) membership of %s is wrong", ipAt(e.base, a), ipAt(e.base, x)), nil))
							break
						}
					}
					if fmtErr := checkNormal(&cp); fmtErr != "" {
						add(mk("insert", fmt.Sprintf("after InsertIP(%s): %s", ipAt(e.base, a), fmtErr), nil))
					}
				}
				cp2 := floatingip.FloatingIPPool{SparseSubnet: nets.SparseSubnet{Gateway: pool.Gateway, Mask: pool.Mask, Vlan: pool.Vlan}}
				cp2.IPRanges = append([]nets.IPRange{}, pool.IPRanges...)
				r2 := cp2.RemoveIP(ipAt(e.base, a))
				if r2 != mem[a] {
					add(mk("remove", fmt.Sprintf("RemoveIP(%s)=%v, expected %v", ipAt(e.base, a), r2, mem[a]), nil))
				} else if r2 {
					for x := 0; x <= int(top); x++ {
						if cp2.Contains(ipAt(e.base, x)) != (mem[x] && x != a) {
							add(mk("remove", fmt.Sprintf("after RemoveIP(%s) membership of %s is wrong", ipAt(e.base, a), ipAt(e.base, x)), nil))
							break
						}
					}
					if fmtErr := checkNormal(&cp2); fmtErr != "" {
						add(mk("remove", fmt.Sprintf("after RemoveIP(%s): %s", ipAt(e.base, a), fmtErr), nil))
					}
				}
			}
		}
	}
	res := map[string]interface{}{"w": f.W, "vectors": len(f.Vectors), "evaluations": evals, "hangs": hangs, "skipped_walks": skippedWalks, "findings": findings}
	ob, _ := json.MarshalIndent(res, "", " ")
	if *out != "" {
		_ = os.WriteFile(*out, ob, 0644)
	}
	fmt.Fprintf(os.Stderr, "fipdrive: %d vectors, %d evaluations, %d findings\n", len(f.Vectors), evals, len(findings))
}

// checkNormal: the ranges must be accepted again by the decoder (sorted, disjoint, not mergeable, inside the subnet).
func checkNormal(p *floatingip.FloatingIPPool) string {
	p.NodeSubnets = []*net.IPNet{{IP: net.ParseIP("10.100.0.0").To4(), Mask: net.CIDRMask(24, 32)}}
	b, err := p.MarshalJSON()
	if err != nil {
		return "marshal: " + err.Error()
	}
	var back floatingip.FloatingIPPool
	if err := json.Unmarshal(b, &back); err != nil {
		return "result is not a valid pool: " + strings.TrimSpace(err.Error())
	}
	return ""
}
