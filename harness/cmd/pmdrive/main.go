// pmdrive runs the histories TLC computed from PortMap.tla on the real portmapping.PortMappingHandler over a fake NAT
// table (the repository's iptables fake) preloaded with stale galaxy chains and foreign chains/rules, and compares
// the table after every operation; with real sockets it checks that handed-out host ports (fixed and random) are
// distinct, stay bound until CloseHostports and are released when an open fails.
package main

import (
	"bytes"
	"encoding/json"
	"flag"
	"fmt"
	"io"
	"math/rand"
	"net"
	"os"
	"regexp"
	"sort"
	"strings"

	"k8s.io/klog"
	"tkestack.io/galaxy/pkg/api/k8s"
	"tkestack.io/galaxy/pkg/network/portmapping"
	utiliptables "tkestack.io/galaxy/pkg/utils/iptables"
	fakeipt "tkestack.io/galaxy/pkg/utils/iptables/testing"
)

type op struct {
	Op   string   `json:"op"`
	Pod  string   `json:"pod"`
	Pods []string `json:"pods"`
}
type table struct {
	Hp     []string `json:"hp"`
	Chains []string `json:"chains"`
	Stale  []string `json:"stale"`
	Old    []string `json:"old"`
}
type vector struct {
	Stale  []string `json:"stale"`
	Ops    []op     `json:"ops"`
	Expect []table  `json:"expect"`
}

// the concrete ports behind the abstract mapping ids of PortMap.tla
var mapsOf = map[string][]k8s.Port{
	"p1": {{HostPort: 8080, ContainerPort: 80, Protocol: "TCP", PodName: "p1", PodIP: "172.16.1.11"},
		{HostPort: 5353, ContainerPort: 53, Protocol: "UDP", HostIP: "10.9.9.9", PodName: "p1", PodIP: "172.16.1.11"}},
	"p2": {{HostPort: 8081, ContainerPort: 80, Protocol: "TCP", PodName: "p2", PodIP: "172.16.1.12"}},
	"p3": {{HostPort: 8080, ContainerPort: 9090, Protocol: "TCP", PodName: "p3", PodIP: "172.16.1.13"}},
}

func hasDest(rule string, p *k8s.Port) bool {
	d := fmt.Sprintf("%s:%d", p.PodIP, p.ContainerPort)
	return strings.Contains(rule, "--to-destination="+d) || strings.Contains(rule, "--to-destination "+d)
}

func idOf(p k8s.Port) string {
	s := fmt.Sprintf("%s:%d/%s", p.PodName, p.HostPort, strings.ToLower(p.Protocol))
	if p.HostIP != "" {
		s += "@" + p.HostIP
	}
	return s
}

const foreignRules = `*nat
:FOREIGN-A - [0:0]
:KUBE-SERVICES - [0:0]
-A FOREIGN-A -p tcp -m tcp --dport 22 -j ACCEPT
-A KUBE-SERVICES -d 10.96.0.1/32 -p tcp -m tcp --dport 443 -j FOREIGN-A
-A PREROUTING -m comment --comment "someone else" -j KUBE-SERVICES
-A POSTROUTING -s 172.16.0.0/13 -j MASQUERADE
COMMIT
`

// snapshot parses the nat table into: hostports rules (by mapping id), galaxy chains (name -> rules), foreign text
type snap struct {
	hp      map[string]string   // mapping id -> chain it jumps to
	chains  map[string][]string // KUBE-HP-* chain -> rules
	foreign string
	hpRaw   []string
}

var hpRe = regexp.MustCompile(`--comment "?(\S+) hostport (\d+)"? .*-p (\w+).*--dport (\d+)(?: -d (\S+))? -j (KUBE-HP-\w+)`)

func takeSnap(ipt utiliptables.Interface) snap {
	buf := bytes.NewBuffer(nil)
	_ = ipt.SaveInto(utiliptables.TableNAT, buf)
	s := snap{hp: map[string]string{}, chains: map[string][]string{}}
	var foreign []string
	for _, line := range strings.Split(buf.String(), "\n") {
		switch {
		case strings.HasPrefix(line, ":KUBE-HP-"):
			name := strings.Fields(line[1:])[0]
			if _, ok := s.chains[name]; !ok {
				s.chains[name] = []string{}
			}
		case strings.HasPrefix(line, "-A KUBE-HP-"):
			name := strings.Fields(line)[1]
			s.chains[name] = append(s.chains[name], line)
		case strings.HasPrefix(line, "-A KUBE-HOSTPORTS"):
			s.hpRaw = append(s.hpRaw, line)
			if m := hpRe.FindStringSubmatch(line); m != nil {
				id := fmt.Sprintf("%s:%s/%s", m[1], m[4], strings.ToLower(m[3]))
				if m[5] != "" {
					id += "@" + strings.TrimSuffix(m[5], "/32")
				}
				s.hp[id] = m[6]
			} else {
				s.hp["unparsed:"+line] = ""
			}
		case strings.HasPrefix(line, ":KUBE-HOSTPORTS"), strings.HasPrefix(line, ":KUBE-MARK-MASQ"), strings.HasPrefix(line, "-A KUBE-MARK-MASQ"),
			strings.Contains(line, "kube hostport portals"), strings.HasPrefix(line, "#"), line == "", line == "COMMIT", strings.HasPrefix(line, "*"):
		default:
			foreign = append(foreign, line)
		}
	}
	sort.Strings(foreign)
	s.foreign = strings.Join(foreign, "\n")
	return s
}

func main() {
	klog.SetOutput(io.Discard)
	kfs := flag.NewFlagSet("klog", flag.ContinueOnError)
	klog.InitFlags(kfs)
	_ = kfs.Set("logtostderr", "false")
	_ = kfs.Set("stderrthreshold", "FATAL")
	in := flag.String("vectors", "", "pmvectors.json written by TLC")
	out := flag.String("out", "", "result json")
	n := flag.Int("n", 1500, "number of histories (seeded sample; 0 = all)")
	seed := flag.Int64("seed", 1, "sample seed")
	flag.Parse()
	b, err := os.ReadFile(*in)
	if err != nil {
		fmt.Fprintln(os.Stderr, err)
		os.Exit(2)
	}
	var vf struct{ Vectors []vector }
	if err := json.Unmarshal(b, &vf); err != nil {
		fmt.Fprintln(os.Stderr, err)
		os.Exit(2)
	}
	type finding struct {
		Check  string      `json:"check"`
		Vector interface{} `json:"vector"`
		Step   int         `json:"step"`
		Detail string      `json:"detail"`
	}
	var findings []finding
	idx := rand.New(rand.NewSource(*seed)).Perm(len(vf.Vectors))
	if *n > 0 && *n < len(idx) {
		idx = idx[:*n]
	}
	steps := 0
	for _, vi := range idx {
		v := vf.Vectors[vi]
		ipt := fakeipt.NewFakeIPTables()
		h := portmapping.New("")
		h.Interface = ipt
		_ = ipt.RestoreAll([]byte(foreignRules), utiliptables.NoFlushTables, utiliptables.RestoreCounters)
		var staleLines []string
		for _, st := range v.Stale {
			staleLines = append(staleLines, ":KUBE-HP-STALE"+st+" - [0:0]")
		}
		if len(staleLines) > 0 {
			rules := "*nat\n" + strings.Join(staleLines, "\n") + "\n"
			for _, st := range v.Stale {
				rules += "-A KUBE-HP-STALE" + st + " -m comment --comment \"gone hostport 1\" -j DNAT --to-destination=172.16.9.9:1\n"
			}
			rules += "COMMIT\n"
			_ = ipt.RestoreAll([]byte(rules), utiliptables.NoFlushTables, utiliptables.RestoreCounters)
		}
		_ = h.EnsureBasicRule()
		before := takeSnap(ipt)
		for si, o := range v.Ops {
			steps++
			var err error
			switch o.Op {
			case "setup":
				err = h.SetupPortMapping(append([]k8s.Port{}, mapsOf[o.Pod]...))
			case "setupold":
				// the same pod name and ports with the address of an earlier incarnation
				oldPorts := append([]k8s.Port{}, mapsOf[o.Pod]...)
				for i := range oldPorts {
					oldPorts[i].PodIP = "172.16.9.99"
				}
				err = h.SetupPortMapping(oldPorts)
			case "clean":
				err = h.CleanPortMapping(append([]k8s.Port{}, mapsOf[o.Pod]...))
			default:
				var all []k8s.Port
				for _, p := range o.Pods {
					all = append(all, mapsOf[p]...)
				}
				err = h.SetupPortMappingForAllPods(all)
			}
			if err != nil {
				findings = append(findings, finding{Check: "op-error", Vector: v, Step: si, Detail: err.Error()})
				continue
			}
			s := takeSnap(ipt)
			exp := v.Expect[si]
			var gotHp []string
			for id := range s.hp {
				gotHp = append(gotHp, id)
			}
			sort.Strings(gotHp)
			want := append([]string{}, exp.Hp...)
			sort.Strings(want)
			if fmt.Sprint(gotHp) != fmt.Sprint(want) || len(s.hpRaw) != len(want) {
				findings = append(findings, finding{Check: "hostports-rules", Vector: v, Step: si, Detail: fmt.Sprintf("KUBE-HOSTPORTS has %v (%d rules), expected %v", gotHp, len(s.hpRaw), want)})
			}
			// chains: every expected mapping has its chain with masquerade + DNAT to its pod; stale chains as expected; nothing else
			wantChains := map[string]bool{}
			isOld := map[string]bool{}
			for _, id := range exp.Old {
				isOld[id] = true
			}
			for _, id := range exp.Chains {
				var port *k8s.Port
				for _, ps := range mapsOf {
					for i := range ps {
						if idOf(ps[i]) == id {
							port = &ps[i]
						}
					}
				}
				if isOld[id] && port != nil {
					cp := *port
					cp.PodIP = "172.16.9.99"
					port = &cp
				}
				ch := s.hp[id]
				if ch == "" {
					// the chain may exist although the redirect rule is gone: find it by its DNAT target
					for name, rules := range s.chains {
						for _, r := range rules {
							if port != nil && hasDest(r, port) && strings.Contains(r, fmt.Sprintf("hostport %d", port.HostPort)) {
								ch = name
							}
						}
					}
				}
				rules := s.chains[ch]
				okM, okD := false, false
				for _, r := range rules {
					if port != nil && strings.Contains(r, "-s "+port.PodIP) && strings.Contains(r, "KUBE-MARK-MASQ") {
						okM = true
					}
					if port != nil && hasDest(r, port) {
						okD = true
					}
				}
				if ch == "" || !okM || !okD || len(rules) != 2 {
					findings = append(findings, finding{Check: "mapping-chain", Vector: v, Step: si, Detail: fmt.Sprintf("mapping %s: chain %q rules %v", id, ch, rules)})
				}
				wantChains[ch] = true
			}
			for _, st := range exp.Stale {
				wantChains["KUBE-HP-STALE"+st] = true
			}
			for name := range s.chains {
				if !wantChains[name] {
					findings = append(findings, finding{Check: "leftover-chain", Vector: v, Step: si, Detail: fmt.Sprintf("chain %s %v should not exist", name, s.chains[name])})
				}
			}
			for name := range wantChains {
				if _, ok := s.chains[name]; !ok && name != "" {
					findings = append(findings, finding{Check: "missing-chain", Vector: v, Step: si, Detail: "chain " + name + " is missing"})
				}
			}
			if s.foreign != before.foreign {
				findings = append(findings, finding{Check: "foreign-untouched", Vector: v, Step: si, Detail: fmt.Sprintf("foreign rules changed:\n%s\n--- was\n%s", s.foreign, before.foreign)})
			}
		}
	}
	// ---- sockets: handed-out ports are distinct, held, and released
	sockChecks := 0
	{
		h := portmapping.New("")
		h.Interface = fakeipt.NewFakeIPTables()
		busy := func(proto string, port int32) bool {
			if proto == "udp" {
				c, err := net.ListenUDP("udp", &net.UDPAddr{Port: int(port)})
				if err != nil {
					return true
				}
				_ = c.Close()
				return false
			}
			l, err := net.Listen("tcp", fmt.Sprintf(":%d", port))
			if err != nil {
				return true
			}
			_ = l.Close()
			return false
		}
		for round := 0; round < 20; round++ {
			sockChecks++
			pa := []k8s.Port{{HostPort: 0, ContainerPort: 80, Protocol: "TCP", PodName: "a"}, {HostPort: 0, ContainerPort: 53, Protocol: "UDP", PodName: "a"}, {HostPort: 0, ContainerPort: 81, Protocol: "TCP", PodName: "a"}}
			pb := []k8s.Port{{HostPort: 0, ContainerPort: 80, Protocol: "TCP", PodName: "b"}}
			if err := h.OpenHostports("a_ns", true, pa); err != nil {
				findings = append(findings, finding{Check: "open", Detail: err.Error()})
				continue
			}
			if err := h.OpenHostports("b_ns", true, pb); err != nil {
				findings = append(findings, finding{Check: "open", Detail: err.Error()})
			}
			seen := map[string]bool{}
			for _, p := range append(append([]k8s.Port{}, pa...), pb...) {
				k := fmt.Sprintf("%s/%d", strings.ToLower(p.Protocol), p.HostPort)
				if p.HostPort == 0 || seen[k] {
					findings = append(findings, finding{Check: "ports-distinct", Detail: fmt.Sprintf("port %s handed out twice or not assigned: %v %v", k, pa, pb)})
				}
				seen[k] = true
				if !busy(strings.ToLower(p.Protocol), p.HostPort) {
					findings = append(findings, finding{Check: "ports-held", Detail: fmt.Sprintf("port %s is not bound while the pod is up", k)})
				}
			}
			// a failing open (the last port is taken by pod a) must leave none of its earlier ports open
			pc := []k8s.Port{{HostPort: 0, ContainerPort: 1, Protocol: "TCP", PodName: "c"}, {HostPort: pa[0].HostPort, ContainerPort: 2, Protocol: "TCP", PodName: "c"}}
			if err := h.OpenHostports("c_ns", true, pc); err == nil {
				findings = append(findings, finding{Check: "open-conflict", Detail: fmt.Sprintf("opening the bound port %d succeeded", pa[0].HostPort)})
			} else if pc[0].HostPort != 0 && busy("tcp", pc[0].HostPort) {
				findings = append(findings, finding{Check: "failed-open-leaves-nothing", Detail: fmt.Sprintf("port %d stays bound after the failed setup", pc[0].HostPort)})
			}
			h.CloseHostports("a_ns")
			for _, p := range pa {
				if busy(strings.ToLower(p.Protocol), p.HostPort) {
					findings = append(findings, finding{Check: "ports-released", Detail: fmt.Sprintf("port %d still bound after CloseHostports", p.HostPort)})
				}
			}
			if !busy("tcp", pb[0].HostPort) {
				findings = append(findings, finding{Check: "ports-held", Detail: "closing pod a released pod b's port"})
			}
			h.CloseHostports("b_ns")
		}
	}
	res := map[string]interface{}{"vectors_total": len(vf.Vectors), "vectors_run": len(idx), "steps": steps, "socket_rounds": sockChecks, "findings": findings}
	ob, _ := json.MarshalIndent(res, "", " ")
	if *out != "" {
		_ = os.WriteFile(*out, ob, 0644)
	}
	fmt.Fprintf(os.Stderr, "pmdrive: %d histories, %d steps, %d findings\n", len(idx), steps, len(findings))
}
