package main

import (
	"math/rand"

	env "verifharness/ipamenv"
)

var (
	cfgTwoPools = []env.Config{
		{{ID: "p1", Subnets: []string{"s1"}, IPs: []string{"ip1", "ip2"}}, {ID: "p2", Subnets: []string{"s2"}, IPs: []string{"ip3", "ip4"}}},
		{{ID: "p1", Subnets: []string{"s1"}, IPs: []string{"ip1"}}, {ID: "p2", Subnets: []string{"s2"}, IPs: []string{"ip2", "ip3", "ip4"}}},
		{{ID: "p1", Subnets: []string{"s1"}, IPs: []string{"ip1", "ip2", "ip5"}}, {ID: "p2", Subnets: []string{"s2"}, IPs: []string{"ip3"}}},
	}
	cfgShared = []env.Config{ // one pool routable from both subnets plus a pool on s1 only (pools share the pod subnet)
		{{ID: "p1", Subnets: []string{"s1", "s2"}, IPs: []string{"ip1", "ip2"}}, {ID: "p2", Subnets: []string{"s1"}, IPs: []string{"ip4"}}},
		{{ID: "p1", Subnets: []string{"s1", "s2"}, IPs: []string{"ip1"}}, {ID: "p2", Subnets: []string{"s1"}, IPs: []string{"ip4", "ip5"}}},
	}
	cfgTight = []env.Config{ // few IPs: contention
		{{ID: "p1", Subnets: []string{"s1"}, IPs: []string{"ip1", "ip2"}}},
		{{ID: "p1", Subnets: []string{"s1"}, IPs: []string{"ip2", "ip3"}}},
	}
	cfgOne = []env.Config{
		{{ID: "p1", Subnets: []string{"s1"}, IPs: []string{"ip1", "ip2", "ip3", "ip4"}}},
		{{ID: "p1", Subnets: []string{"s1"}, IPs: []string{"ip1", "ip2", "ip3"}}},
	}
	nodesTwoSubnets = map[string]string{"n1": "s1", "n2": "s1", "n3": "s2"}
	nodesOneSubnet  = map[string]string{"n1": "s1", "n2": "s1"}
)

func feat(names ...string) map[string]bool {
	m := map[string]bool{}
	for _, n := range names {
		m[n] = true
	}
	return m
}

func pol(rng *rand.Rand, choices ...int) int { return choices[rng.Intn(len(choices))] }

// pickScenario draws one scenario of the given family ("" = any family).
func pickScenario(rng *rand.Rand, focus string) scenario {
	fams := []string{"c01", "c02", "c03", "c04", "c07", "c10", "c05", "c09", "c08"}
	if focus == "" {
		focus = fams[rng.Intn(len(fams))]
	}
	sc := scenario{Name: focus, MaxInc: 2, MaxOps: 2, Faults: 1, WStep: 50, WEnv: 25, WStart: 25,
		Sts: map[string]int32{}, Dp: map[string]int32{}, Pools: map[string]int{}}
	sts := func(name string, p int) env.PodSpec { return env.PodSpec{Name: name, Kind: "sts", App: "s", Policy: p} }
	dp := func(name, app string, p int, pool string) env.PodSpec {
		return env.PodSpec{Name: name, Kind: "dp", App: app, Policy: p, Pool: pool}
	}
	switch focus {
	case "c01": // contention for few IPs, same-named incarnations, resync and API release racing with bind
		sc.Cfgs, sc.NodeSub = cfgTight, nodesOneSubnet
		sc.Specs = []env.PodSpec{sts("s-0", pol(rng, 0, 1)), dp("d-a", "d", pol(rng, 0, 1), ""), sts("s-1", 0)}
		sc.Sts["s"], sc.Dp["d"] = 2, 1
		sc.MaxInc, sc.MaxOps = 3, 3
		sc.Feat = feat("resync", "apirelease", "kubelet")
	case "c02": // stickiness: reserving policies, reschedule on other nodes / subnets
		if rng.Intn(2) == 0 {
			sc.Cfgs = cfgShared
		} else {
			sc.Cfgs = cfgTwoPools
		}
		sc.NodeSub = nodesTwoSubnets
		sc.Specs = []env.PodSpec{sts("s-0", pol(rng, 1, 2)), dp("d-a", "d", pol(rng, 1, 2), ""), dp("d-b", "d", pol(rng, 1, 2), "")}
		if rng.Intn(3) == 0 {
			sc.Specs[2] = dp("d-b", "d", 2, "pl")
			sc.Specs[1] = dp("d-a", "d", 2, "pl")
		}
		if rng.Intn(3) == 0 {
			sc.Specs = append(sc.Specs, env.PodSpec{Name: "b-0", Kind: "bare", App: "", Policy: 2})
		}
		sc.Sts["s"], sc.Dp["d"] = 1, 2
		sc.MaxInc = 3
		sc.Feat = feat("resync", "scale")
	case "c03": // release policies: all kinds and policies, scaling and deleting apps, lost events
		sc.Cfgs, sc.NodeSub = cfgOne, nodesOneSubnet
		sc.Specs = []env.PodSpec{sts("s-0", pol(rng, 0, 1, 2)), sts("s-1", pol(rng, 0, 1, 2)), dp("d-a", "d", pol(rng, 0, 1, 2), ""), dp("d-b", "d", pol(rng, 0, 1, 2), "")}
		if rng.Intn(3) == 0 {
			sc.Specs = append(sc.Specs, env.PodSpec{Name: "b-0", Kind: "bare", Policy: pol(rng, 0, 2)})
		}
		sc.Sts["s"], sc.Dp["d"] = 2, 2
		sc.MaxInc, sc.MaxOps = 2, 2
		sc.Feat = feat("resync", "scale", "apirelease")
		sc.WEnv = 35
	case "c04": // incarnations, informer lag, duplicated/late events, resync, API release, pod-ip sync
		sc.Cfgs, sc.NodeSub = cfgOne, nodesOneSubnet
		sc.Specs = []env.PodSpec{sts("s-0", pol(rng, 0, 1, 2)), dp("d-a", "d", pol(rng, 0, 1), "")}
		sc.Sts["s"], sc.Dp["d"] = 1, 1
		sc.MaxInc, sc.MaxOps = 3, 3
		sc.Cloud = rng.Intn(3) == 0
		sc.Feat = feat("resync", "apirelease", "kubelet")
		sc.WStep, sc.WEnv, sc.WStart = 40, 30, 30
	case "c07": // sized pool shared by two deployments; concurrent filters and pool updates
		sc.Cfgs, sc.NodeSub = cfgOne, nodesOneSubnet
		sc.Specs = []env.PodSpec{dp("d-a", "d", 2, "pl"), dp("d-b", "d", 2, "pl"), dp("e-a", "e", 2, "pl")}
		sc.Dp["d"], sc.Dp["e"] = 2, 1
		sc.Pools["pl"] = rng.Intn(3)
		sc.MaxOps = 3
		sc.Feat = feat("pool", "resync")
		sc.WStep, sc.WEnv, sc.WStart = 50, 15, 35
	case "c10": // cloud provider on, pods moving between nodes, provider / binding failures and retries
		sc.Cfgs, sc.NodeSub = cfgOne, nodesOneSubnet
		sc.Specs = []env.PodSpec{sts("s-0", pol(rng, 0, 1, 2)), dp("d-a", "d", pol(rng, 0, 1), "")}
		sc.Sts["s"], sc.Dp["d"] = 1, 1
		sc.Cloud = true
		sc.MaxInc, sc.Faults = 3, 2
		sc.Feat = feat("resync", "apirelease")
	case "c05": // crashes between calls, restart, resync
		sc.Cfgs, sc.NodeSub = cfgTwoPools, nodesTwoSubnets
		sc.Specs = []env.PodSpec{sts("s-0", pol(rng, 0, 1, 2)), dp("d-a", "d", pol(rng, 0, 1, 2), ""),
			{Name: "m-0", Kind: "sts", App: "m", Policy: pol(rng, 0, 1), Ranges: [][]string{{"ip1"}, {"ip2"}}}}
		sc.Sts["s"], sc.Sts["m"], sc.Dp["d"] = 1, 1, 1
		sc.Crashes, sc.Faults = 1, 2
		sc.Feat = feat("resync", "crash", "kubelet")
	case "c08": // multi-range requests, partially pre-owned ranges
		sc.Cfgs, sc.NodeSub = cfgShared, nodesTwoSubnets
		sc.Specs = []env.PodSpec{
			{Name: "m-0", Kind: "sts", App: "m", Policy: pol(rng, 0, 1), Ranges: [][]string{{"ip1", "ip2"}, {"ip4"}}},
			{Name: "m-1", Kind: "sts", App: "m", Policy: pol(rng, 0, 1), Ranges: [][]string{{"ip2"}, {"ip1", "ip4"}}},
			sts("s-0", 0)}
		sc.Sts["s"], sc.Sts["m"] = 1, 2
		sc.MaxInc, sc.Faults = 3, 2
		sc.Feat = feat("resync")
	case "c09": // reload while operations run; admin reservations with late events
		sc.Cfgs, sc.NodeSub = cfgTwoPools, nodesTwoSubnets
		sc.Specs = []env.PodSpec{sts("s-0", pol(rng, 0, 1)), dp("d-a", "d", pol(rng, 0, 1), ""), sts("s-1", 0)}
		sc.Sts["s"], sc.Dp["d"] = 2, 1
		sc.Admin = 2
		sc.MaxOps = 3
		sc.Feat = feat("reload", "admin", "resync")
	default:
		panic("unknown focus " + focus)
	}
	// a third of the scenarios give pods without ranges a present-but-void args annotation
	if rng.Intn(3) == 0 {
		for i := range sc.Specs {
			if len(sc.Specs[i].Ranges) == 0 {
				sc.Specs[i].ArgsAnn = []string{"empty", "null", "{}"}[rng.Intn(3)]
			}
		}
	}
	return sc
}
