package main

import (
	"math/rand"
	"sort"

	env "verifharness/ipamenv"
)

var (
	cfgTwoPools = []env.Config{
		{{ID: "p1", Subnets: []string{"s1"}, IPs: []string{"ip1", "ip2"}}, {ID: "p2", Subnets: []string{"s2"}, IPs: []string{"ip3", "ip4"}}},
		{{ID: "p1", Subnets: []string{"s1"}, IPs: []string{"ip1"}}, {ID: "p2", Subnets: []string{"s2"}, IPs: []string{"ip2", "ip3", "ip4"}}},
		{{ID: "p1", Subnets: []string{"s1"}, IPs: []string{"ip1", "ip2", "ip5"}}, {ID: "p2", Subnets: []string{"s2"}, IPs: []string{"ip3"}}},
	}
	cfgShared = []env.Config{ // one pool routable from both subnets plus a pool on s1 only (pools share the pod subnet)
		{{ID: "p1", Subnets: []string{"s1", "s2"}, IPs: []string{"ip1", "ip2"}}, {ID: "p2", Subnets: []string{"s1"}, IPs: []string{"ip4"}}},
		{{ID: "p1", Subnets: []string{"s1", "s2"}, IPs: []string{"ip1"}}, {ID: "p2", Subnets: []string{"s1"}, IPs: []string{"ip4", "ip5"}}},
	}
	cfgKeep = []env.Config{ // every IP stays configured across reloads; the second pool shares the pod subnet with the first
		{{ID: "p1", Subnets: []string{"s1"}, IPs: []string{"ip1"}}, {ID: "p2", Subnets: []string{"s1", "s2"}, IPs: []string{"ip3", "ip4"}}},
		{{ID: "p1", Subnets: []string{"s1"}, IPs: []string{"ip1"}}, {ID: "p2", Subnets: []string{"s1", "s2"}, IPs: []string{"ip3", "ip4", "ip5"}}},
	}
	cfgTight = []env.Config{ // few IPs: contention
		{{ID: "p1", Subnets: []string{"s1"}, IPs: []string{"ip1", "ip2"}}},
		{{ID: "p1", Subnets: []string{"s1"}, IPs: []string{"ip2", "ip3"}}},
	}
	cfgOne = []env.Config{
		{{ID: "p1", Subnets: []string{"s1"}, IPs: []string{"ip1", "ip2", "ip3", "ip4"}}},
		{{ID: "p1", Subnets: []string{"s1"}, IPs: []string{"ip1", "ip2", "ip3"}}},
	}
	nodesTwoSubnets = map[string]string{"n1": "s1", "n2": "s1", "n3": "s2"}
	nodesOneSubnet  = map[string]string{"n1": "s1", "n2": "s1"}
)

// randomTopology draws a valid pool topology (C06's quantifier): two to four pools with pairwise disjoint IP ranges, most
// sharing the pod subnet 10.0.0.0/24, possibly one in a second pod subnet; node subnets are /24s (s1..s3) or the
// single-host s6, pairwise disjoint, and may be listed by several pools; nodes sit in any of them, in a subnet no pool
// lists (s4) or in none at all.
func randomTopology(rng *rand.Rand) ([]env.Config, map[string]string) {
	subs := []string{"s1", "s2", "s3", "s6"}
	np := 2 + rng.Intn(3)
	ips := []string{"ip1", "ip2", "ip3", "ip4", "ip5", "ip6"}
	rng.Shuffle(len(ips), func(i, j int) { ips[i], ips[j] = ips[j], ips[i] })
	var cfg env.Config
	for k := 1; k <= np; k++ {
		p := env.PoolConf{ID: "p" + string(rune('0'+k))}
		for _, s := range subs {
			if rng.Intn(3) == 0 {
				p.Subnets = append(p.Subnets, s)
			}
		}
		if len(p.Subnets) == 0 {
			p.Subnets = []string{subs[rng.Intn(len(subs))]}
		}
		if k == np && rng.Intn(3) == 0 {
			p.Net = 1
			p.IPs = []string{"ip101", "ip102"}[:1+rng.Intn(2)]
		} else {
			n := 1 + rng.Intn(2)
			if n > len(ips) {
				n = len(ips)
			}
			p.IPs, ips = append([]string{}, ips[:n]...), ips[n:]
			sort.Strings(p.IPs)
		}
		cfg = append(cfg, p)
	}
	nodes := map[string]string{}
	places := []string{"s1", "s2", "s3", "s4", ""}
	for j := 1; j <= 3+rng.Intn(2); j++ {
		nodes["n"+string(rune('0'+j))] = places[rng.Intn(len(places))]
	}
	if rng.Intn(2) == 0 {
		nodes["n5"] = "s6"
	}
	return []env.Config{cfg}, nodes
}

func feat(names ...string) map[string]bool {
	m := map[string]bool{}
	for _, n := range names {
		m[n] = true
	}
	return m
}

func pol(rng *rand.Rand, choices ...int) int { return choices[rng.Intn(len(choices))] }

// pickScenario draws one scenario of the given family ("" = any family).
func pickScenario(rng *rand.Rand, focus string) scenario {
	fams := []string{"c01", "c02", "c03", "c04", "c07", "c10", "c05", "c09", "c08", "c06"}
	if focus == "" {
		focus = fams[rng.Intn(len(fams))]
	}
	// "c03cloud": the c03 family with its rarest variant forced (provider on, a reserving statefulset pod whose deletion is lost
	// in a restart, then two resync passes)
	forcedCloud := focus == "c03cloud"
	if forcedCloud {
		focus = "c03"
	}
	sc := scenario{Name: focus, MaxInc: 2, MaxOps: 2, Faults: 1, WStep: 50, WEnv: 25, WStart: 25,
		Sts: map[string]int32{}, Dp: map[string]int32{}, Pools: map[string]int{}}
	sts := func(name string, p int) env.PodSpec { return env.PodSpec{Name: name, Kind: "sts", App: "s", Policy: p} }
	dp := func(name, app string, p int, pool string) env.PodSpec {
		return env.PodSpec{Name: name, Kind: "dp", App: app, Policy: p, Pool: pool}
	}
	switch focus {
	case "c01": // contention for few IPs, same-named incarnations, resync and API release racing with bind
		sc.Cfgs, sc.NodeSub = cfgTight, nodesOneSubnet
		sc.Specs = []env.PodSpec{sts("s-0", pol(rng, 0, 1)), dp("d-a", "d", pol(rng, 0, 1), ""), sts("s-1", 0)}
		sc.Sts["s"], sc.Dp["d"] = 2, 1
		sc.MaxInc, sc.MaxOps = 3, 3
		sc.Feat = feat("resync", "apirelease", "kubelet")
	case "c02": // stickiness: reserving policies, reschedule on other nodes / subnets
		if rng.Intn(2) == 0 {
			sc.Cfgs = cfgShared
		} else {
			sc.Cfgs = cfgTwoPools
		}
		sc.NodeSub = nodesTwoSubnets
		sc.Specs = []env.PodSpec{sts("s-0", pol(rng, 1, 2)), dp("d-a", "d", pol(rng, 1, 2), ""), dp("d-b", "d", pol(rng, 1, 2), "")}
		if rng.Intn(3) == 0 {
			sc.Specs[2] = dp("d-b", "d", 2, "pl")
			sc.Specs[1] = dp("d-a", "d", 2, "pl")
		}
		if rng.Intn(3) == 0 {
			sc.Specs = append(sc.Specs, env.PodSpec{Name: "b-0", Kind: "bare", App: "", Policy: 2})
		}
		sc.Sts["s"], sc.Dp["d"] = 1, 2
		sc.MaxInc = 3
		sc.Feat = feat("resync", "scale")
		if rng.Intn(2) == 0 { // whole scheduler cycles: more reschedules per trace
			sc.Feat["cycle"] = true
		}
		if rng.Intn(3) == 0 { // start after a rolled-out and deleted generation: the app holds reserved IPs
			sc.Feat["rollout"], sc.Feat["cycle"], sc.Feat["preempt"] = true, true, true
		}
	case "c03": // release policies: all kinds and policies, scaling and deleting apps, lost events
		sc.Cfgs, sc.NodeSub = cfgOne, nodesOneSubnet
		sc.Specs = []env.PodSpec{sts("s-0", pol(rng, 0, 1, 2)), sts("s-1", pol(rng, 0, 1, 2)), dp("d-a", "d", pol(rng, 0, 1, 2), ""), dp("d-b", "d", pol(rng, 0, 1, 2), "")}
		if rng.Intn(3) == 0 {
			sc.Specs = append(sc.Specs, env.PodSpec{Name: "b-0", Kind: "bare", Policy: pol(rng, 0, 2)})
		}
		sc.Sts["s"], sc.Dp["d"] = 2, 2
		sc.MaxInc, sc.MaxOps = 2, 2
		sc.Feat = feat("resync", "scale", "apirelease")
		sc.WEnv = 35
		if rng.Intn(3) == 0 || forcedCloud { // the policy must survive a restart (it is rebuilt from the stored objects)
			sc.Feat["crash"], sc.Crashes = true, 1
			sc.Cloud = rng.Intn(2) == 0 || forcedCloud // with a provider, resync has to unassign before it may reserve or release
			if sc.Cloud {
				sc.Specs[0].Policy = pol(rng, 1, 2)
				sc.Feat["lostdelete"] = true
			}
			if forcedCloud { // the workloads stay as they are: what resync does to the reserved IP is not masked by a deleted app
				delete(sc.Feat, "scale")
			}
		}
		if rng.Intn(3) == 0 { // an immutable deployment is rolled out, scaled down and its pods go away together
			sc.Specs[2].Policy, sc.Specs[3].Policy = 1, 1
			sc.Feat["rollout"] = true
		}
	case "syncall": // the periodic pod-ip sync over stale snapshots: running pods that are deleted, finished and re-created meanwhile
		sc.Cfgs, sc.NodeSub = cfgTight, nodesOneSubnet
		sc.Specs = []env.PodSpec{sts("s-0", pol(rng, 0, 0, 1, 2)), sts("s-1", pol(rng, 0, 1)), dp("d-a", "d", pol(rng, 0, 1), "")}
		sc.Sts["s"], sc.Dp["d"] = 2, 1
		sc.MaxInc, sc.MaxOps, sc.Faults = 3, 3, rng.Intn(2)
		sc.Cloud = rng.Intn(2) == 0 // with a provider every release or reservation of a once-bound IP is preceded by an unassign
		sc.Feat = feat("resync", "kubelet", "cycle")
		sc.WStep, sc.WEnv, sc.WStart = 35, 35, 30
	case "c04": // incarnations, informer lag, duplicated/late events, resync, API release, pod-ip sync
		sc.Cfgs, sc.NodeSub = cfgOne, nodesOneSubnet
		sc.Specs = []env.PodSpec{sts("s-0", pol(rng, 0, 1, 2)), dp("d-a", "d", pol(rng, 0, 1), "")}
		sc.Sts["s"], sc.Dp["d"] = 1, 1
		sc.MaxInc, sc.MaxOps = 3, 3
		sc.Cloud = rng.Intn(3) == 0
		sc.Feat = feat("resync", "apirelease", "kubelet")
		sc.WStep, sc.WEnv, sc.WStart = 40, 30, 30
		if rng.Intn(3) == 0 { // configuration reloads that still contain the IPs (pools sharing the pod subnet)
			sc.Cfgs, sc.NodeSub = cfgKeep, nodesTwoSubnets
			sc.Feat["reload"], sc.Feat["cycle"] = true, true
			sc.Specs = append(sc.Specs, sts("s-1", 0))
			sc.Sts["s"] = 2
		}
	case "c07": // sized pool shared by two deployments; concurrent filters and pool updates
		sc.Cfgs, sc.NodeSub = cfgOne, nodesOneSubnet
		sc.Specs = []env.PodSpec{dp("d-a", "d", 2, "pl"), dp("d-b", "d", 2, "pl"), dp("e-a", "e", 2, "pl")}
		sc.Dp["d"], sc.Dp["e"] = 2, 1
		sc.Pools["pl"] = rng.Intn(3)
		sc.MaxOps = 3
		sc.Feat = feat("pool", "resync")
		sc.WStep, sc.WEnv, sc.WStart = 50, 15, 35
	case "c10": // cloud provider on, pods moving between nodes, provider / binding failures and retries
		sc.Cfgs, sc.NodeSub = cfgOne, nodesOneSubnet
		sc.Specs = []env.PodSpec{sts("s-0", pol(rng, 0, 1, 2)), dp("d-a", "d", pol(rng, 0, 1), "")}
		sc.Sts["s"], sc.Dp["d"] = 1, 1
		sc.Cloud = true
		sc.MaxInc, sc.Faults = 3, 2
		sc.Feat = feat("resync", "apirelease")
	case "c05": // crashes between calls, restart, resync
		sc.Cfgs, sc.NodeSub = cfgTwoPools, nodesTwoSubnets
		sc.Specs = []env.PodSpec{sts("s-0", pol(rng, 0, 1, 2)), dp("d-a", "d", pol(rng, 0, 1, 2), ""),
			{Name: "m-0", Kind: "sts", App: "m", Policy: pol(rng, 0, 1), Ranges: [][]string{{"ip1"}, {"ip2"}}}}
		sc.Sts["s"], sc.Sts["m"], sc.Dp["d"] = 1, 1, 1
		sc.Crashes, sc.Faults = 1, 2
		sc.Feat = feat("resync", "crash", "kubelet")
	case "c08": // multi-range requests, partially pre-owned ranges
		sc.Cfgs, sc.NodeSub = cfgShared, nodesTwoSubnets
		sc.Specs = []env.PodSpec{
			{Name: "m-0", Kind: "sts", App: "m", Policy: pol(rng, 0, 1), Ranges: [][]string{{"ip1", "ip2"}, {"ip4"}}},
			{Name: "m-1", Kind: "sts", App: "m", Policy: pol(rng, 0, 1), Ranges: [][]string{{"ip2"}, {"ip1", "ip4"}}},
			sts("s-0", 0)}
		sc.Sts["s"], sc.Sts["m"] = 1, 2
		sc.MaxInc, sc.Faults = 3, 2
		sc.Feat = feat("resync")
		if rng.Intn(3) > 0 { // template change: later incarnations ask for more ranges, some already owned
			alt := [][][]string{{{"ip2"}, {"ip1"}, {"ip4"}}, {{"ip2"}, {"ip4"}, {"ip1"}}, {{"ip1"}, {"ip2"}, {"ip4"}}}[rng.Intn(3)]
			sc.AltRanges = map[string][][]string{"m-0": alt}
			sc.Specs = []env.PodSpec{{Name: "m-0", Kind: "sts", App: "m", Policy: pol(rng, 1, 2), Ranges: [][]string{{"ip1"}, {"ip4"}}}, sts("s-0", 0)}
			sc.Faults = 1
			sc.Feat["cycle"] = true
			sc.Feat["rollout"] = true // the trace starts with m-0's first generation bound, deleted and its IPs reserved
		}
	case "c09": // reload while operations run; admin reservations with late events
		sc.Cfgs, sc.NodeSub = cfgTwoPools, nodesTwoSubnets
		sc.Specs = []env.PodSpec{sts("s-0", pol(rng, 0, 1)), dp("d-a", "d", pol(rng, 0, 1), ""), sts("s-1", 0)}
		sc.Sts["s"], sc.Dp["d"] = 2, 1
		sc.Admin = 2
		sc.MaxOps = 3
		sc.Feat = feat("reload", "admin", "resync")
	case "c06": // random valid topology; scheduler cycles (filter, then bind on an offered node) with nothing in between
		sc.Cfgs, sc.NodeSub = randomTopology(rng)
		free := allIPs(sc.Cfgs)
		pickIPs := func(n int) []string {
			var out []string
			for ; n > 0 && len(free) > 0; n-- {
				i := rng.Intn(len(free))
				out = append(out, free[i])
				free = append(free[:i], free[i+1:]...)
			}
			sort.Slice(out, func(a, b int) bool { return env.IPAddr(out[a]).String() < env.IPAddr(out[b]).String() })
			return out
		}
		sc.Specs = []env.PodSpec{sts("s-0", pol(rng, 0, 1, 2)), sts("s-1", 0), dp("d-a", "d", pol(rng, 0, 1, 2), ""), dp("d-b", "d", 0, "")}
		if rng.Intn(2) == 0 { // pairwise disjoint requested ranges
			sc.Specs = append(sc.Specs, env.PodSpec{Name: "m-0", Kind: "sts", App: "m", Policy: pol(rng, 0, 1), Ranges: [][]string{pickIPs(1 + rng.Intn(2)), pickIPs(1 + rng.Intn(2))}})
			sc.Sts["m"] = 1
			if rng.Intn(2) == 0 { // one wide contiguous range across every pool of the first pod subnet (10.0.0.0/24)
				sc.Specs[len(sc.Specs)-1].Ranges = [][]string{{"ip1", "ip2", "ip3", "ip4", "ip5", "ip6"}}
			}
		}
		if rng.Intn(3) == 0 {
			sc.Specs = append(sc.Specs, env.PodSpec{Name: "b-0", Kind: "bare", Policy: 0})
		}
		if rng.Intn(3) == 0 { // pods of a sized pool: filter allocates for them, bind must find that allocation
			sc.Specs = append(sc.Specs, dp("e-a", "e", 2, "pl"), dp("e-b", "e", 2, "pl"))
			sc.Dp["e"] = 2
			sc.Pools["pl"] = 1 + rng.Intn(2)
		}
		sc.Sts["s"], sc.Dp["d"] = 2, 2
		sc.MaxInc, sc.MaxOps, sc.Faults = 3, 1+rng.Intn(2), 0
		sc.Feat = feat("cycle", "kubelet")
		if rng.Intn(3) == 0 {
			sc.Feat["resync"] = true
		}
		sc.WStep, sc.WEnv, sc.WStart = 30, 35, 35
		switch rng.Intn(4) {
		case 0: // a process restart re-attaches the stored IPs to their pools
			sc.Feat["crash"], sc.Crashes = true, 1
		case 1: // partially allocated multi-range pod: the release API frees one of the reserved IPs of a deleted pod
			sc.Cfgs = []env.Config{{{ID: "p1", Subnets: []string{"s1"}, IPs: []string{"ip1", "ip2"}}, {ID: "p2", Subnets: []string{"s2"}, IPs: []string{"ip3", "ip4"}},
				{ID: "p3", Subnets: []string{"s1", "s2"}, IPs: []string{"ip5", "ip6"}}}}
			sc.NodeSub = map[string]string{"n1": "s1", "n2": "s2", "n3": "s1", "n4": ""}
			v := rng.Intn(4)
			rr := [][][]string{{{"ip1"}}, {{"ip3"}}, {{"ip2"}, {"ip6"}}, {{"ip6"}, {"ip3", "ip4"}}}[v]
			alt := [][][]string{{{"ip5", "ip6"}, {"ip1"}}, {{"ip5"}, {"ip3"}}, {{"ip5"}, {"ip2"}, {"ip6"}}, {{"ip1", "ip2"}, {"ip3", "ip4"}}}[v]
			sc.Specs = []env.PodSpec{{Name: "m-0", Kind: "sts", App: "m", Policy: pol(rng, 1, 2), Ranges: rr}, sts("s-0", pol(rng, 0, 1)), dp("d-a", "d", 0, "")}
			sc.AltRanges = map[string][][]string{"m-0": alt}
			sc.Sts["m"] = 1
			sc.Feat["apirelease"] = true
		}
	default:
		panic("unknown focus " + focus)
	}
	// the scheduler's preemption extender is consulted now and then in the families with reserving policies and sized pools
	if (focus == "c02" || focus == "c06" || focus == "c07" || focus == "c04") && rng.Intn(2) == 0 {
		sc.Feat["preempt"] = true
	}
	// a third of the scenarios give pods without ranges a present-but-void args annotation
	if rng.Intn(3) == 0 {
		for i := range sc.Specs {
			if len(sc.Specs[i].Ranges) == 0 {
				sc.Specs[i].ArgsAnn = []string{"empty", "null", "{}"}[rng.Intn(3)]
			}
		}
	}
	// the periodic pod-ip sync (syncPodIPsIntoDB) runs in a third of the scenarios of the ownership / release families; it needs
	// running pods, hence the kubelet
	if (focus == "c01" || focus == "c03" || focus == "c04" || focus == "c05") && rng.Intn(3) == 0 {
		sc.Feat["syncall"], sc.Feat["kubelet"] = true, true
	}
	if focus == "syncall" {
		sc.Feat["syncall"], sc.Feat["kubelet"] = true, true
	}
	// an API-server outage for the retry window of one Bind call, followed by the scheduler's retry (a quarter of the scenarios
	// of the ownership families; it costs the real retry loop's 3 s once per trace)
	if (focus == "c01" || focus == "c04") && rng.Intn(4) == 0 {
		sc.Feat["outage"] = true
	}
	return sc
}
