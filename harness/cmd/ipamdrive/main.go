// ipamdrive drives a real galaxy-ipam FloatingIPPlugin (plus its HTTP API controllers) under the
// deterministic scheduler of ipamenv: every IPAM method, API-server call, lister read, cloud call and keyed
// lock acquisition is a point where the operation is parked, so that the driver decides the interleaving of
// filter / bind / unbind / resync / API release / pool update / reload with pod lifecycle events, informer
// lag, store faults, crashes and restarts. It writes ndjson traces (action + projected post-state) that
// Trace_GalaxyIPAM.tla validates.
package main

import (
	"bytes"
	"encoding/json"
	"flag"
	"fmt"
	"io"
	"math/rand"
	"net/http/httptest"
	"os"
	"sort"
	"strings"
	"sync"

	restful "github.com/emicklei/go-restful"
	corev1 "k8s.io/api/core/v1"
	"k8s.io/apimachinery/pkg/types"
	"k8s.io/klog"
	"tkestack.io/galaxy/pkg/api/k8s/schedulerapi"
	"tkestack.io/galaxy/pkg/ipam/api"
	env "verifharness/ipamenv"
)

type M = map[string]interface{}

type opInfo struct {
	op     *env.Op
	typ    string
	pod    string
	node   string
	work   *env.Work
	ip     string
	booked bool
	uid    string
	slow   bool
}

type scenario struct {
	Name    string
	Specs   []env.PodSpec
	Cfgs    []env.Config
	NodeSub map[string]string
	Cloud   bool
	Sts     map[string]int32
	Dp      map[string]int32
	Pools   map[string]int // sized pools created up front
	MaxInc  int
	MaxOps  int
	Faults  int
	Crashes int
	Admin   int
	// weights of action groups: step, env, start
	WStep, WEnv, WStart int
	Feat                map[string]bool
	AltRanges           map[string][][]string // ranges later incarnations of a pod name may ask for instead
}

type driver struct {
	outageDone bool // bindOutage ran in this trace (it costs the real retry loop's 3 s)
	avoidSub   string // filterThenBind prefers an offered node outside this node subnet (rollout spreads a generation)
	rng      *rand.Rand
	w        *env.World
	sc       scenario
	out      *json.Encoder
	nLines   int
	last     map[string]string
	ops      map[int]*opInfo
	filtered map[string][]string // pod -> nodes offered by the latest successful filter of the current incarnation
	inc      map[string]int
	budget   struct{ faults, crashes, admin, reloads int }
	api      *restful.Container
	tid      int
	hung     bool
	lagMode  bool   // this trace delivers pod informer events rarely
	slowType string // operations of this type are stepped rarely in this trace (long windows)
}

// ---------------------------------------------------------------- state projection

func (d *driver) state() M {
	w := d.w
	st := M{}
	if w.Alive {
		mem, _, err := env.ProjectMem(w.Inner)
		if err != nil {
			st["memerr"] = err.Error()
			mem = map[string]env.MemRec{}
		}
		st["mem"] = mem
	} else {
		st["mem"] = map[string]env.MemRec{}
	}
	st["store"] = env.ProjectStore(w.Store)
	st["pools"] = w.Cfgs[w.LoadedCf].Abstract()
	st["cm"] = w.CfgCur + 1
	st["alive"] = w.Alive
	st["pods"] = w.TruthPods()
	st["lpods"] = w.ListerPods()
	pevq := []M{}
	for _, e := range w.Pevq {
		ev := M{"type": e.Type, "new": e.New}
		if e.Old != nil {
			ev["old"] = *e.Old
		}
		pevq = append(pevq, ev)
	}
	st["pevq"] = pevq
	work := []M{}
	for _, wk := range w.Work {
		work = append(work, M{"pod": wk.Pod, "retry": wk.Retry})
	}
	st["work"] = work
	fev := []M{}
	for _, f := range w.Fev {
		fev = append(fev, M{"type": f.Type, "ip": f.IP})
	}
	st["fev"] = fev
	sts, dp, pools := w.Workloads()
	st["sts"], st["dp"], st["poolobj"] = sts, dp, pools
	cl := map[string]string{}
	for k, v := range w.Cloud.Assign {
		cl[k] = v
	}
	st["cloud"] = cl
	st["podlocks"], st["dplocks"] = map[string]int{}, []M{}
	if w.Alive {
		st["podlocks"] = w.PodLocks.Held()
		dl := []M{}
		held := w.DpLocks.Held()
		var ks []string
		for k := range held {
			ks = append(ks, k)
		}
		sort.Strings(ks)
		for _, k := range ks {
			dl = append(dl, M{"key": env.ParseKeyRec(k), "op": held[k]})
		}
		st["dplocks"] = dl
	}
	ops := M{}
	for id, oi := range d.ops {
		if oi.op.Done || oi.op.Dead {
			continue
		}
		p := M{"typ": oi.typ, "pod": oi.pod, "next": "?"}
		if oi.op.Pending != nil {
			p["next"] = oi.op.Pending.Name
		}
		ops[fmt.Sprint(id)] = p
	}
	st["ops"] = ops
	return st
}

func (d *driver) emit(e M) {
	st := d.state()
	if e["ev"] == "Reset" {
		d.last = map[string]string{}
	}
	for k, v := range st {
		b, _ := json.Marshal(v)
		if d.last[k] != string(b) {
			e[k] = v
			d.last[k] = string(b)
		}
	}
	d.nLines++
	// TLC's JSON reader has no null: round-trip and replace any nil by an empty string
	b, err := json.Marshal(e)
	if err != nil {
		panic(err)
	}
	var generic interface{}
	if err := json.Unmarshal(b, &generic); err != nil {
		panic(err)
	}
	if err := d.out.Encode(noNull(generic)); err != nil {
		panic(err)
	}
}

func noNull(v interface{}) interface{} {
	switch x := v.(type) {
	case nil:
		return ""
	case map[string]interface{}:
		for k, e := range x {
			x[k] = noNull(e)
		}
	case []interface{}:
		for i, e := range x {
			x[i] = noNull(e)
		}
	}
	return v
}

// ---------------------------------------------------------------- operations

func (d *driver) register(typ, pod, node string, op *env.Op, err error) *opInfo {
	oi := &opInfo{op: op, typ: typ, pod: pod, node: node, slow: typ == d.slowType}
	d.ops[op.ID] = oi
	if err != nil {
		d.hung = true
	}
	return oi
}

func names(nodes []corev1.Node) []string {
	out := []string{}
	for _, n := range nodes {
		out = append(out, n.Name)
	}
	sort.Strings(out)
	return out
}

func errStr(err error) string {
	if err == nil {
		return ""
	}
	return err.Error()
}

func (d *driver) startFilter(pod string) {
	p := d.w.TruthPod(pod)
	nodes := d.w.NodeObjs(d.w.NodeOrder)
	plugin := d.w.Plugin
	op, err := d.w.S.Start("filter", func() M {
		ok, failed, e := plugin.Filter(p, nodes)
		fm := M{}
		for k, v := range failed {
			fm[k] = v
		}
		return M{"ok": e == nil, "err": errStr(e), "nodes": names(ok), "failed": fm}
	})
	oi := d.register("filter", pod, "", op, err)
	oi.uid = string(p.UID)
	d.emitOp(oi, M{"ev": "StartFilter", "op": op.ID, "pod": pod, "uid": string(p.UID), "nodes": d.w.NodeOrder})
}

// startPreempt asks the preemption extender which of all nodes stay candidates for the pod (victims are irrelevant here).
func (d *driver) startPreempt(pod string) {
	p := d.w.TruthPod(pod)
	plugin := d.w.Plugin
	args := &schedulerapi.ExtenderPreemptionArgs{Pod: p, NodeNameToMetaVictims: map[string]*schedulerapi.MetaVictims{}}
	for _, n := range d.w.NodeOrder {
		args.NodeNameToMetaVictims[n] = &schedulerapi.MetaVictims{}
	}
	op, err := d.w.S.Start("preempt", func() M {
		res := plugin.Preempt(args)
		nodes := []string{}
		for n := range res {
			nodes = append(nodes, n)
		}
		sort.Strings(nodes)
		return M{"nodes": nodes}
	})
	oi := d.register("preempt", pod, "", op, err)
	oi.uid = string(p.UID)
	d.emitOp(oi, M{"ev": "StartPreempt", "op": op.ID, "pod": pod, "uid": string(p.UID)})
}

func (d *driver) startBind(pod, node string) {
	p := d.w.TruthPod(pod)
	plugin := d.w.Plugin
	args := &schedulerapi.ExtenderBindingArgs{PodName: pod, PodNamespace: env.NS, PodUID: types.UID(p.UID), Node: node}
	op, err := d.w.S.Start("bind", func() M {
		e := plugin.Bind(args)
		// "wait": the documented refusal while an earlier same-named pod still holds the IP
		return M{"ok": e == nil, "err": errStr(e), "wait": e != nil && strings.Contains(e.Error(), "waiting for delete event")}
	})
	oi := d.register("bind", pod, node, op, err)
	d.emitOp(oi, M{"ev": "StartBind", "op": op.ID, "pod": pod, "uid": string(p.UID), "node": node})
}

func (d *driver) startUnbind() {
	wk := d.w.Work[0]
	d.w.Work = d.w.Work[1:]
	plugin := d.w.Plugin
	podObj := wk.PodObj()
	op, err := d.w.S.Start("unbind", func() M {
		e := plugin.VerifUnbind(podObj)
		return M{"ok": e == nil, "err": errStr(e)}
	})
	oi := d.register("unbind", wk.Pod.Name, "", op, err)
	oi.work = &wk
	d.emitOp(oi, M{"ev": "StartUnbind", "op": op.ID, "pod": wk.Pod.Name, "uid": wk.Pod.UID, "policy": wk.Pod.Policy, "retry": wk.Retry})
}

func (d *driver) startResync() {
	plugin := d.w.Plugin
	op, err := d.w.S.Start("resync", func() M {
		e := plugin.VerifResyncOnce()
		return M{"ok": e == nil, "err": errStr(e)}
	})
	oi := d.register("resync", "", "", op, err)
	d.emitOp(oi, M{"ev": "StartResync", "op": op.ID})
}

// startSyncAll starts the periodic pod-ip sync (syncPodIPsIntoDB): one listing of the informer cache, then syncPodIP for every
// running pod of that snapshot, whatever has happened to the pod in the meantime.
func (d *driver) startSyncAll() {
	plugin := d.w.Plugin
	op, err := d.w.S.Start("syncall", func() M {
		plugin.VerifSyncPodIPs()
		return M{"ok": true, "err": ""}
	})
	oi := d.register("syncall", "", "", op, err)
	d.emitOp(oi, M{"ev": "StartSyncAll", "op": op.ID})
}

// bindOutage: the API server refuses pods/binding for the whole retry window of one Bind call (every try of that call fails;
// the pod stays as it is), and the scheduler retries the bind at once on the same node. Whatever the failed call left
// behind -- the allocation, and any release event it queued -- meets the retried, successful bind: the events are handled
// by the random scheduling that follows.
func (d *driver) bindOutage(name, node string) {
	d.outageDone = true
	d.startBind(name, node)
	b := d.lastOp()
	if b == nil || b.typ != "bind" {
		return
	}
	for guard := 0; guard < 60 && !b.op.Done && !b.op.Dead && !d.hung && d.w.Alive; guard++ {
		ok := false
		for _, r := range d.runnable() {
			ok = ok || r == b
		}
		if !ok {
			return
		}
		f := 0
		if b.op.Pending != nil && b.op.Pending.Name == "binding" {
			f = 1
		}
		d.step(b, f, 0)
	}
	if !b.op.Done || d.hung || !d.w.Alive || d.liveCount() >= d.sc.MaxOps {
		return
	}
	if v, ok := d.w.TruthPods()[name]; ok && v.Node == "" && v.Phase == "Pending" && d.rng.Intn(4) != 0 {
		d.startBind(name, node)
		d.runAlone(d.lastOp())
	}
}

// staleSync is the directed form of what the periodic pod-ip sync can meet: it lists while the pod runs, then the pod is deleted,
// its events are handled and its IP released or reserved (and, sometimes, a successor is created and scheduled) before the
// sync reaches the pod's entry of its snapshot. The sync operation is left to the random scheduler afterwards.
func (d *driver) staleSync(name string) {
	if d.liveOf("syncall", "") {
		return
	}
	for guard := 0; len(d.w.Pevq) > 0 && guard < 50; guard++ {
		d.deliverPod()
	}
	// (the handler of the "running" update is an operation of its own: let it finish)
	for guard := 0; d.liveOf("syncpod", "") && guard < 50 && !d.hung; guard++ {
		d.deliverPod()
	}
	if lv, ok := d.w.ListerPods()[name]; !ok || lv.Phase != "Running" || d.liveCount() >= d.sc.MaxOps || d.liveOf("syncall", "") {
		return
	}
	d.startSyncAll()
	sa := d.lastOp()
	if sa == nil || sa.typ != "syncall" || sa.op.Done {
		return
	}
	d.step(sa, 0, 0) // the listing
	if d.hung || !d.w.DeletePod(name) {
		return
	}
	delete(d.filtered, name)
	d.emit(M{"ev": "DeletePod", "pod": name})
	for guard := 0; guard < 100 && !d.hung && d.w.Alive; guard++ {
		if len(d.w.Pevq) > 0 {
			d.deliverPod()
			continue
		}
		if len(d.w.Work) > 0 && d.liveCount() < d.sc.MaxOps {
			d.startUnbind()
			d.runAlone(d.lastOp())
			continue
		}
		break
	}
	if d.rng.Intn(4) != 0 && d.inc[name] < d.sc.MaxInc && d.liveCount() < d.sc.MaxOps {
		for _, sp := range d.sc.Specs {
			if sp.Name == name {
				if pv, err := d.w.CreatePod(sp); err == nil {
					d.inc[name]++
					d.emit(M{"ev": "CreatePod", "pod": name, "uid": pv.UID, "ranges": pv.Ranges})
					d.filterThenBind(name)
				}
			}
		}
		// half of the time the sync reaches the stale entry right now, with the successor bound (possibly with the same IP)
		if d.rng.Intn(4) != 0 && !sa.op.Done && !sa.op.Dead {
			if d.runAlone(sa) && d.sc.Feat["resync"] && !d.liveOf("resync", "") && d.liveCount() < d.sc.MaxOps {
				// ... and a resync pass judges what the sync left in the records while the successor lives
				d.startResync()
				d.runAlone(d.lastOp())
			}
		}
	}
}

func (d *driver) startSyncPod(pod *corev1.Pod, old *corev1.Pod) *opInfo {
	plugin := d.w.Plugin
	op, err := d.w.S.Start("syncpod", func() M {
		e := plugin.UpdatePod(old, pod)
		return M{"ok": e == nil, "err": errStr(e)}
	})
	return d.register("syncpod", pod.Name, "", op, err)
}

func (d *driver) startReload() {
	plugin := d.w.Plugin
	target := d.w.CfgCur
	op, err := d.w.S.Start("reload", func() M {
		ok, e := plugin.VerifReloadConfigMap()
		return M{"ok": e == nil && ok, "err": errStr(e)}
	})
	oi := d.register("reload", "", "", op, err)
	oi.node = fmt.Sprint(target)
	d.emitOp(oi, M{"ev": "StartReload", "op": op.ID})
}

func (d *driver) serve(method, url string, body interface{}) (int, []byte) {
	var rd io.Reader
	if body != nil {
		b, _ := json.Marshal(body)
		rd = bytes.NewReader(b)
	}
	req := httptest.NewRequest(method, url, rd)
	req.Header.Set("Content-Type", "application/json")
	req.Header.Set("Accept", "application/json")
	rec := httptest.NewRecorder()
	d.api.ServeHTTP(rec, req)
	return rec.Code, rec.Body.Bytes()
}

// startApiRelease lists the IPs through the real list API (driver goroutine, atomic) and posts one returned
// entry back through the real release API (as an operation).
func (d *driver) startApiRelease(ip string) {
	code, body := d.serve("GET", "/v1/ip?size=1000", nil)
	var list api.ListIPResp
	if code != 200 || json.Unmarshal(body, &list) != nil {
		return
	}
	var entry *api.FloatingIP
	for i := range list.Content {
		if env.IPName(env.IPAddr(list.Content[i].IP)) == ip && (list.Content[i].PodName != "" || list.Content[i].PoolName != "" || list.Content[i].AppName != "") {
			entry = &list.Content[i]
		}
	}
	if entry == nil {
		return
	}
	if entry.AppType == "" || strings.EqualFold(entry.AppType, "null") {
		return // known API defects C/D are C11's business, not this driver's
	}
	req := api.ReleaseIPReq{IPs: []api.FloatingIP{*entry}}
	op, err := d.w.S.Start("apirelease", func() M {
		c, b := d.serve("POST", "/v1/ip", req)
		var resp api.ReleaseIPResp
		_ = json.Unmarshal(b, &resp)
		return M{"ok": c == 200, "code": c, "unreleased": len(resp.Unreleased), "reasons": resp.Reason}
	})
	oi := d.register("apirelease", entry.PodName, "", op, err)
	oi.ip = ip
	d.emitOp(oi, M{"ev": "StartApiRelease", "op": op.ID, "ip": ip, "pod": entry.PodName, "key": env.ParseKeyRec(keyOfEntry(entry)), "releasable": entry.Releasable})
}

func keyOfEntry(e *api.FloatingIP) string {
	kind := map[string]string{"statefulset": "sts", "deployment": "dp"}[e.AppType]
	if kind == "" {
		kind = e.AppType
	}
	k := env.KeyRec{Pool: e.PoolName, Kind: kind, App: e.AppName, Pod: e.PodName}
	if e.AppName == "" && e.PodName == "" {
		k.Kind = ""
	}
	return k.String()
}

func (d *driver) startPoolUpsert(name string, size int, prealloc bool) {
	req := api.Pool{Name: name, Size: size, PreAllocateIP: prealloc}
	op, err := d.w.S.Start("poolupsert", func() M {
		c, b := d.serve("POST", "/v1/pool", req)
		var resp api.UpdatePoolResp
		_ = json.Unmarshal(b, &resp)
		return M{"ok": c == 200, "code": c, "real": resp.RealPoolSize}
	})
	oi := d.register("poolupsert", name, "", op, err)
	d.emitOp(oi, M{"ev": "StartPoolUpsert", "op": op.ID, "pool": name, "size": size, "prealloc": prealloc})
}

func (d *driver) pend(oi *opInfo) interface{} {
	if oi.op.Done || oi.op.Dead {
		return M{"call": "done", "args": M{}}
	}
	if oi.op.Pending == nil {
		return M{"call": "?", "args": M{}}
	}
	return M{"call": oi.op.Pending.Name, "args": oi.op.Pending.Args}
}

// book does the bookkeeping the plugin's own loops / the scheduler would do when a segment ends; it runs
// before the line is emitted so that the logged state includes it.
func (d *driver) book(oi *opInfo, e M) {
	d.w.DrainWork()
	if oi.op.Dead && d.w.Alive {
		// a crash point inside a store call was reached: the whole process is gone
		d.w.Crash()
		d.budget.crashes--
		e["crashed"] = true
		return
	}
	if !oi.op.Done || oi.booked {
		return
	}
	oi.booked = true
	res := oi.op.Result
	e["res"] = res
	ok, _ := res["ok"].(bool)
	switch oi.typ {
	case "filter":
		// the scheduler binds only on the strength of a filter result computed for this very pod (uid)
		cur := d.w.TruthPod(oi.pod)
		if ok && cur != nil && string(cur.UID) == oi.uid {
			d.filtered[oi.pod] = res["nodes"].([]string)
		} else {
			delete(d.filtered, oi.pod)
		}
	case "unbind":
		if !ok && oi.work != nil {
			wk := *oi.work
			wk.Retry++
			if wk.Retry <= 3 {
				d.w.Work = append(d.w.Work, wk)
			}
		}
	case "reload":
		if ok {
			d.w.LoadedCf = d.w.ServedCf
		}
	}
}

func (d *driver) emitOp(oi *opInfo, e M) {
	e["next"] = d.pend(oi)
	d.book(oi, e)
	d.emit(e)
	if _, p := oi.op.Result["panic"]; p && oi.op.Done {
		d.emit(M{"ev": "Panic", "op": oi.op.ID, "typ": oi.typ, "msg": oi.op.Result["panic"]})
	}
}

// step runs one segment of an operation.
func (d *driver) step(oi *opInfo, fault, crashAt int) {
	if err := d.w.S.Step(oi.op, fault, crashAt); err != nil {
		d.hung = true
		d.emit(M{"ev": "Hang", "op": oi.op.ID, "typ": oi.typ})
		return
	}
	e := M{"ev": "Step", "op": oi.op.ID, "typ": oi.typ, "f": fault}
	if l := oi.op.Last; l != nil {
		e["call"], e["args"], e["ret"], e["calls"] = l.Name, l.Args, l.Ret, l.Calls
		if l.Ret == nil {
			e["ret"] = M{}
		}
	}
	if len(oi.op.Reads) > 0 {
		e["reads"] = oi.op.Reads
	}
	d.emitOp(oi, e)
}

// runnable: parked operations whose pending lock (if any) is free
func (d *driver) runnable() []*opInfo {
	var out []*opInfo
	ids := []int{}
	for id := range d.ops {
		ids = append(ids, id)
	}
	sort.Ints(ids)
	for _, id := range ids {
		oi := d.ops[id]
		if oi.op.Done || oi.op.Dead || oi.op.Pending == nil {
			continue
		}
		switch oi.op.Pending.Name {
		case "lockpod":
			if d.w.PodLocks.IsHeld(oi.op.Pending.Args["key"]) {
				continue
			}
		case "lockdp":
			if d.w.DpLocks.IsHeld(oi.op.Pending.Args["key"]) {
				continue
			}
		}
		out = append(out, oi)
	}
	return out
}

func (d *driver) liveCount() int {
	n := 0
	for _, oi := range d.ops {
		if !oi.op.Done && !oi.op.Dead {
			n++
		}
	}
	return n
}

func (d *driver) liveOf(typ, pod string) bool {
	for _, oi := range d.ops {
		if !oi.op.Done && !oi.op.Dead && oi.typ == typ && (pod == "" || oi.pod == pod) {
			return true
		}
	}
	return false
}

// ---------------------------------------------------------------- environment actions

func (d *driver) deliverPod() {
	// The pod informer calls its handlers one after the other: while the handler of a running pod's update (syncPodIP, which
	// takes the pod lock) has not returned, no later pod event is delivered. (Release events are only queued by their handlers.)
	if d.liveOf("syncpod", "") {
		if r := d.runnable(); len(r) > 0 {
			for _, oi := range r {
				if oi.typ == "syncpod" {
					d.step(oi, 0, 0)
					return
				}
			}
		}
		return
	}
	e, ok := d.w.DeliverPodEvent()
	if !ok {
		return
	}
	line := M{"ev": "DeliverPod", "type": e.Type, "pod": e.New.Name, "uid": e.New.UID, "op": 0}
	var oi *opInfo
	if d.w.Alive {
		old, new := e.OldObj(), e.NewObj()
		switch e.Type {
		case "add":
			_ = d.w.Plugin.AddPod(new)
		case "del":
			_ = d.w.Plugin.DeletePod(new)
		case "upd":
			finishedOld := old != nil && (old.Status.Phase == corev1.PodSucceeded || old.Status.Phase == corev1.PodFailed)
			finishedNew := new.Status.Phase == corev1.PodSucceeded || new.Status.Phase == corev1.PodFailed
			if (!finishedOld && finishedNew) || new.Status.Phase != corev1.PodRunning {
				// no lock is taken on this path: run the handler inline
				if old == nil {
					old = new
				}
				_ = d.w.Plugin.UpdatePod(old, new)
			} else {
				if old == nil {
					old = new
				}
				oi = d.startSyncPod(new, old)
				line["op"] = oi.op.ID
			}
		}
		d.w.DrainWork()
	}
	if oi != nil {
		d.emitOp(oi, line)
	} else {
		d.emit(line)
	}
}

func (d *driver) envAction() bool {
	w := d.w
	type act func()
	var acts []act
	var wts []int
	add := func(wt int, a act) { acts = append(acts, a); wts = append(wts, wt) }
	truth := w.TruthPods()
	// directed: as soon as a pod with a reserving policy is bound, its deletion is lost in a restart (once per trace)
	if d.sc.Feat["lostdelete"] && d.budget.crashes > 0 && w.Alive && d.rng.Intn(2) == 0 {
		for _, s := range d.sc.Specs {
			if v, ok := truth[s.Name]; ok && v.Node != "" && v.Phase != "Done" && s.Kind != "dp" && (s.Policy != 0 || s.Pool != "") {
				d.lostDelete(s.Name)
				return true
			}
		}
	}
	for _, s := range d.sc.Specs {
		s := s
		v, exists := truth[s.Name]
		if !exists && d.inc[s.Name] < d.sc.MaxInc && !(d.liveOf("bind", s.Name) && d.rng.Intn(10) != 0) {
			add(6, func() {
				sp := s
				if alt, ok := d.sc.AltRanges[s.Name]; ok && d.inc[s.Name] > 0 && d.rng.Intn(3) != 0 {
					sp.Ranges = alt // the template changed between incarnations
				}
				pv, err := w.CreatePod(sp)
				if err == nil {
					d.inc[s.Name]++
					d.emit(M{"ev": "CreatePod", "pod": s.Name, "uid": pv.UID, "ranges": pv.Ranges})
				}
			})
		}
		if exists {
			dw := 1
			if v.Node != "" {
				dw = 4
			}
			add(dw, func() {
				if w.DeletePod(s.Name) {
					delete(d.filtered, s.Name)
					d.emit(M{"ev": "DeletePod", "pod": s.Name})
				}
			})
			if v.Phase != "Done" && v.Node != "" {
				add(1, func() {
					if w.SetPhase(s.Name, corev1.PodSucceeded) {
						d.emit(M{"ev": "FinishPod", "pod": s.Name})
					}
				})
			}
			if v.Phase == "Pending" && v.Node != "" && d.sc.Feat["kubelet"] {
				add(2, func() {
					if w.SetPhase(s.Name, corev1.PodRunning) {
						d.emit(M{"ev": "KubeletRun", "pod": s.Name})
					}
				})
			}
		}
	}
	if len(w.Pevq) > 0 {
		if d.lagMode {
			add(2, d.deliverPod)
		} else {
			add(12, d.deliverPod)
		}
	}
	if d.sc.Feat["scale"] {
		for app := range d.sc.Sts {
			app := app
			add(1, func() {
				r := int32(d.rng.Intn(3))
				w.SetSts(app, r, true)
				d.emit(M{"ev": "ScaleSts", "app": app, "replicas": r})
			})
			add(1, func() {
				w.SetSts(app, 0, false)
				d.emit(M{"ev": "DeleteSts", "app": app})
			})
		}
		for app := range d.sc.Dp {
			app := app
			add(1, func() {
				r := int32(d.rng.Intn(3))
				w.SetDp(app, r, true)
				d.emit(M{"ev": "ScaleDp", "app": app, "replicas": r})
			})
			add(1, func() {
				w.SetDp(app, 0, false)
				d.emit(M{"ev": "DeleteDp", "app": app})
			})
		}
	}
	if d.sc.Feat["admin"] {
		ips := allIPs(d.sc.Cfgs)
		ip := ips[d.rng.Intn(len(ips))]
		cur := w.Store.RawGet(env.IPAddr(ip).String())
		if cur == nil && d.budget.admin > 0 {
			add(2, func() {
				if w.Store.RawCreate(env.AdminFip(ip, "pool__adm_")) == nil {
					d.budget.admin--
					d.emit(M{"ev": "AdminReserve", "ip": ip})
				}
			})
		} else if cur != nil {
			if _, lab := cur.Labels["reserved"]; lab {
				add(2, func() {
					_ = w.Store.RawDelete(cur.Name)
					d.emit(M{"ev": "AdminUnreserve", "ip": ip})
				})
			}
		}
		if len(w.Fev) > 0 && w.Alive {
			add(4, func() {
				f := w.Fev[0]
				w.Fev = w.Fev[1:]
				if f.Type == "add" {
					w.Inf.DeliverAdd(f.Obj())
				} else {
					w.Inf.DeliverDelete(f.Obj())
				}
				d.emit(M{"ev": "DeliverFev"})
			})
		}
	}
	if d.sc.Feat["reload"] && len(d.sc.Cfgs) > 1 && d.budget.reloads > 0 {
		add(1, func() {
			n := d.rng.Intn(len(d.sc.Cfgs))
			if n != w.CfgCur {
				w.CfgCur = n
				d.budget.reloads--
				d.emit(M{"ev": "ChangeConfig", "conf": n + 1})
			}
		})
	}
	if d.sc.Feat["crash"] && d.sc.Feat["resync"] && d.budget.crashes > 0 && w.Alive {
		for _, s := range d.sc.Specs {
			name := s.Name
			if v, ok := truth[name]; ok && v.Node != "" && v.Phase != "Done" && (s.Policy != 0 || s.Pool != "") {
				add(8, func() { d.lostDelete(name) })
			}
		}
	}
	if d.sc.Feat["crash"] && !d.sc.Feat["lostdelete"] && d.budget.crashes > 0 && w.Alive { // (lostdelete keeps the one crash for itself)
		add(1, func() {
			w.Crash()
			d.budget.crashes--
			d.emit(M{"ev": "Crash"})
		})
	}
	if len(acts) == 0 {
		return false
	}
	pick(d.rng, wts, func(i int) { acts[i]() })
	return true
}

func pick(rng *rand.Rand, wts []int, f func(int)) {
	tot := 0
	for _, w := range wts {
		tot += w
	}
	r := rng.Intn(tot)
	for i, w := range wts {
		if r < w {
			f(i)
			return
		}
		r -= w
	}
}

func allIPs(cfgs []env.Config) []string {
	seen := map[string]bool{}
	for _, c := range cfgs {
		for _, p := range c {
			for _, ip := range p.IPs {
				seen[ip] = true
			}
		}
	}
	var out []string
	for ip := range seen {
		out = append(out, ip)
	}
	sort.Strings(out)
	return out
}

// lastOp is the operation started last.
func (d *driver) lastOp() *opInfo {
	max := 0
	for id := range d.ops {
		if id > max {
			max = id
		}
	}
	return d.ops[max]
}

// runAlone steps one operation, and nothing else, until it ends; false if it got stuck behind a lock.
func (d *driver) runAlone(oi *opInfo) bool {
	for guard := 0; guard < 200 && !d.hung && d.w.Alive; guard++ {
		if oi.op.Done || oi.op.Dead {
			return true
		}
		ok := false
		for _, r := range d.runnable() {
			ok = ok || r == oi
		}
		if !ok {
			return false
		}
		d.step(oi, 0, 0)
	}
	return oi.op.Done
}

// filterThenBind is the scheduler's cycle with nothing in between (C06): filter the pod, then bind it on one of the
// offered nodes, each running alone and without faults.
func (d *driver) filterThenBind(name string) {
	if d.rng.Intn(5) != 0 { // mostly with an informer that has caught up
		for guard := 0; len(d.w.Pevq) > 0 && guard < 50; guard++ {
			d.deliverPod()
		}
	}
	d.startFilter(name)
	if !d.runAlone(d.lastOp()) {
		return
	}
	nodes := d.filtered[name]
	if len(nodes) == 0 {
		return
	}
	if d.sc.Feat["resync"] && d.rng.Intn(4) == 0 && !d.liveOf("resync", "") && d.liveCount() < d.sc.MaxOps {
		// a whole resync pass between the scheduler's filter and bind calls
		d.startResync()
		if !d.runAlone(d.lastOp()) {
			return
		}
	}
	node := nodes[d.rng.Intn(len(nodes))]
	if d.avoidSub != "" {
		for _, n := range nodes {
			if d.sc.NodeSub[n] != d.avoidSub {
				node = n
			}
		}
	}
	d.startBind(name, node)
	d.runAlone(d.lastOp())
}

// rollout is a prelude: every deployment pod is scheduled and bound, then all of them are deleted and the release events
// handled, so that the app holds several reserved IPs (possibly in different node subnets) when the trace proper starts.
func (d *driver) rollout() {
	var names []string
	for _, s := range d.sc.Specs {
		if _, alt := d.sc.AltRanges[s.Name]; s.Kind != "dp" && !alt {
			continue
		}
		pv, err := d.w.CreatePod(s)
		if err != nil {
			continue
		}
		d.inc[s.Name]++
		d.emit(M{"ev": "CreatePod", "pod": s.Name, "uid": pv.UID, "ranges": pv.Ranges})
		for guard := 0; len(d.w.Pevq) > 0 && guard < 50; guard++ {
			d.deliverPod()
		}
		d.filterThenBind(s.Name)
		if v, ok := d.w.TruthPods()[s.Name]; ok && v.Node != "" {
			d.avoidSub = d.sc.NodeSub[v.Node] // the next pod of the generation goes to another node subnet if it can
		}
		names = append(names, s.Name)
	}
	if d.sc.Feat["scale"] && d.rng.Intn(2) == 0 {
		// scaled down by one just before the pods go away
		for app, r := range d.sc.Dp {
			if r > 0 {
				d.w.SetDp(app, r-1, true)
				d.emit(M{"ev": "ScaleDp", "app": app, "replicas": r - 1})
			}
		}
	}
	d.avoidSub = ""
	for _, n := range names {
		if d.w.DeletePod(n) {
			delete(d.filtered, n)
			d.emit(M{"ev": "DeletePod", "pod": n})
		}
	}
	// the release events are handled concurrently: all of them start, their segments interleave at random
	for guard := 0; guard < 300 && !d.hung && d.w.Alive; guard++ {
		if len(d.w.Pevq) > 0 {
			d.deliverPod()
		} else if len(d.w.Work) > 0 {
			d.startUnbind()
		} else if r := d.runnable(); len(r) > 0 {
			d.step(r[d.rng.Intn(len(r))], 0, 0)
		} else {
			break
		}
	}
}

// staleKeyCycle (directed, C02): a deployment pod is deleted but its release event is not handled yet, so its key still holds
// the IP; the replacement pod of the same name is filtered (it is offered the nodes of that IP), a whole resync pass runs
// (it finds the IP under a foreign uid and puts it back to the app's reserve), then the pod is bound.
func (d *driver) staleKeyCycle(name string) {
	v, ok := d.w.TruthPods()[name]
	if !ok || v.Node == "" || d.liveCount() > 0 {
		return
	}
	if !d.w.DeletePod(name) {
		return
	}
	delete(d.filtered, name)
	d.emit(M{"ev": "DeletePod", "pod": name})
	var spec *env.PodSpec
	for i := range d.sc.Specs {
		if d.sc.Specs[i].Name == name {
			spec = &d.sc.Specs[i]
		}
	}
	pv, err := d.w.CreatePod(*spec)
	if err != nil {
		return
	}
	d.inc[name]++
	d.emit(M{"ev": "CreatePod", "pod": name, "uid": pv.UID, "ranges": pv.Ranges})
	for guard := 0; len(d.w.Pevq) > 0 && guard < 50; guard++ {
		d.deliverPod() // the delete event is delivered (its release event is queued), the release itself is not handled
	}
	d.startFilter(name)
	if !d.runAlone(d.lastOp()) {
		return
	}
	nodes := d.filtered[name]
	if len(nodes) == 0 {
		return
	}
	d.startResync()
	if !d.runAlone(d.lastOp()) {
		return
	}
	d.startBind(name, nodes[d.rng.Intn(len(nodes))])
	d.runAlone(d.lastOp())
}

// preemptRaceFilter (directed, C06): the preemption extender and the filter extender are asked about the same pod at the
// same time; their segments alternate.
func (d *driver) preemptRaceFilter(name string) {
	if d.liveCount() > 0 {
		return
	}
	d.startPreempt(name)
	a := d.lastOp()
	d.startFilter(name)
	b := d.lastOp()
	for guard := 0; guard < 100 && !d.hung && d.w.Alive && !(a.op.Done && b.op.Done); guard++ {
		r := d.runnable()
		if len(r) == 0 {
			return
		}
		pick := r[0]
		for _, oi := range r { // alternate: prefer the one that did not move last
			if (guard%2 == 0 && oi == a) || (guard%2 == 1 && oi == b) {
				pick = oi
			}
		}
		if pick != a && pick != b {
			return
		}
		d.step(pick, 0, 0)
	}
	if nodes := d.filtered[name]; len(nodes) > 0 && b.op.Done {
		d.filterThenBind(name)
	}
}

func (d *driver) startAction() bool {
	w := d.w
	if !w.Alive || d.liveCount() >= d.sc.MaxOps {
		return false
	}
	type act func()
	var acts []act
	var wts []int
	add := func(wt int, a act) { acts = append(acts, a); wts = append(wts, wt) }
	truth := w.TruthPods()
	for _, s := range d.sc.Specs {
		name := s.Name
		v, exists := truth[name]
		if exists && v.Node == "" && v.Phase == "Pending" && !d.liveOf("filter", name) && !d.liveOf("bind", name) {
			if d.sc.Feat["cycle"] {
				add(12, func() { d.filterThenBind(name) })
			}
			if d.sc.Feat["preempt"] && (v.Policy != 0 || v.Pool != "") && !d.liveOf("preempt", name) {
				add(2, func() { d.startPreempt(name) })
				if d.sc.Feat["cycle"] {
					add(4, func() { d.preemptRaceFilter(name) })
				}
			}
			if nodes, ok := d.filtered[name]; ok && len(nodes) > 0 && d.sc.Feat["outage"] && !d.outageDone {
				add(10, func() { d.bindOutage(name, nodes[d.rng.Intn(len(nodes))]) })
			}
			if nodes, ok := d.filtered[name]; ok && len(nodes) > 0 {
				add(8, func() { d.startBind(name, nodes[d.rng.Intn(len(nodes))]) })
				add(1, func() { d.startFilter(name) })
			} else {
				add(8, func() { d.startFilter(name) })
			}
		}
	}
	if len(w.Work) > 0 {
		add(10, d.startUnbind)
	}
	if d.sc.Feat["cycle"] && d.sc.Feat["resync"] && d.sc.Feat["rollout"] {
		for _, sp := range d.sc.Specs {
			name := sp.Name
			if v, ok := truth[name]; ok && sp.Kind == "dp" && sp.Policy != 0 && v.Node != "" && v.Phase != "Done" {
				add(3, func() { d.staleKeyCycle(name) })
			}
		}
	}
	if d.sc.Feat["resync"] && !d.liveOf("resync", "") && len(env.ProjectStore(w.Store)) > 0 {
		add(1, d.startResync)
	}
	if d.sc.Feat["syncall"] && !d.liveOf("syncall", "") && len(w.ListerPods()) > 0 {
		add(3, d.startSyncAll)
		for _, sp := range d.sc.Specs {
			name := sp.Name
			if v, ok := truth[name]; ok && v.Phase == "Running" && v.Node != "" {
				add(10, func() { d.staleSync(name) })
			}
		}
	}
	if d.sc.Feat["apirelease"] && w.Alive {
		mem, _, _ := env.ProjectMem(w.Inner)
		var cands []string
		for ip, r := range mem {
			if r.Key != (env.KeyRec{}) && !r.Lab {
				cands = append(cands, ip)
			}
		}
		sort.Strings(cands)
		if len(cands) > 0 {
			ip := cands[d.rng.Intn(len(cands))]
			add(2, func() { d.startApiRelease(ip) })
		}
	}
	if d.sc.Feat["pool"] {
		for pl := range d.sc.Pools {
			pl := pl
			if !d.liveOf("poolupsert", pl) {
				add(2, func() { d.startPoolUpsert(pl, d.rng.Intn(3), d.rng.Intn(2) == 0) })

			}
		}
	}
	if d.sc.Feat["reload"] && w.CfgCur != w.LoadedCf && !d.liveOf("reload", "") {
		add(4, d.startReload)
	}
	if len(acts) == 0 {
		return false
	}
	pick(d.rng, wts, func(i int) { acts[i]() })
	return true
}

func (d *driver) stepAction() bool {
	r := d.runnable()
	if len(r) == 0 {
		return false
	}
	// operations marked slow are stepped with a fifth of the others' weight
	var wts []int
	for _, x := range r {
		if x.slow {
			wts = append(wts, 1)
		} else {
			wts = append(wts, 6)
		}
	}
	var oi *opInfo
	pick(d.rng, wts, func(i int) { oi = r[i] })
	fault, crashAt := 0, 0
	name := oi.op.Pending.Name
	fallible := map[string]int{"AllocateInSubnet": 1, "AllocateInSubnetWithKey": 2, "AllocateMulti": 3, "ReserveIP": 2, "UpdateAttr": 2,
		"Release": 1, "ReleaseIPs": 2, "AllocateSpecificIP": 1, "ConfigurePool": 1, "podget": 1, "binding": 1, "AssignIP": 1, "UnAssignIP": 1, "cmget": 1}
	if n, ok := fallible[name]; ok {
		if d.budget.faults > 0 && d.rng.Intn(5) == 0 {
			fault = 1 + d.rng.Intn(n)
			d.budget.faults--
		} else if d.sc.Feat["crash"] && !d.sc.Feat["lostdelete"] && d.budget.crashes > 0 && d.rng.Intn(25) == 0 && (name == "AllocateMulti" || name == "ReserveIP" || name == "ReleaseIPs" || name == "AllocateInSubnetWithKey" || name == "UpdateAttr") {
			crashAt = 2
		}
	}
	d.step(oi, fault, crashAt)
	return true
}

// ---------------------------------------------------------------- a trace

// lostDelete: a bound pod is deleted while the process is going down, so nobody ever handles the event; after the restart only
// resync can notice. Two passes run alone: the first may have to unassign at the provider and clear node and uid, the second
// sees what the first left behind (C03: the release policy must still decide).
func (d *driver) lostDelete(name string) {
	if d.budget.crashes <= 0 || !d.w.Alive || !d.w.DeletePod(name) {
		return
	}
	delete(d.filtered, name)
	d.emit(M{"ev": "DeletePod", "pod": name})
	d.w.Crash()
	d.budget.crashes--
	d.emit(M{"ev": "Crash"})
	d.restart()
	for i := 0; i < 2 && !d.hung && d.w.Alive; i++ {
		d.startResync()
		d.runAlone(d.lastOp())
	}
}

func (d *driver) restart() {
	d.ops = map[int]*opInfo{}
	d.filtered = map[string][]string{}
	if err := d.w.Restart(); err != nil {
		panic(err)
	}
	d.buildAPI()
	d.emit(M{"ev": "Restart"})
}

func (d *driver) buildAPI() {
	c := restful.NewContainer()
	ws := new(restful.WebService)
	ws.Path("/v1").Consumes(restful.MIME_JSON).Produces(restful.MIME_JSON)
	ctl := api.NewController(d.w.Plugin.GetIpam(), d.w.Plugin.PodLister, d.w.Plugin.Release)
	ws.Route(ws.GET("/ip").To(ctl.ListIPs))
	ws.Route(ws.POST("/ip").To(ctl.ReleaseIPs))
	pc := api.PoolController{PoolLister: d.w.Plugin.PoolLister, Client: d.w.Store.Client(), LockPoolFunc: d.w.Plugin.LockDpPool, IPAM: d.w.Plugin.GetIpam()}
	ws.Route(ws.POST("/pool").To(pc.CreateOrUpdate))
	ws.Route(ws.DELETE("/pool/{name}").To(pc.Delete))
	ws.Route(ws.GET("/pool/{name}").To(pc.Get))
	c.Add(ws)
	d.api = c
}

// quiesce: let everything in flight finish, deliver every event, handle all work, run one resync pass.
func (d *driver) quiesce() {
	guard := 0
	drain := func() {
		for guard < 3000 {
			guard++
			if d.hung {
				return
			}
			if !d.w.Alive {
				d.restart()
				continue
			}
			if r := d.runnable(); len(r) > 0 {
				d.step(r[0], 0, 0)
				continue
			}
			if len(d.w.Pevq) > 0 {
				d.deliverPod()
				continue
			}
			if len(d.w.Fev) > 0 {
				f := d.w.Fev[0]
				d.w.Fev = d.w.Fev[1:]
				if f.Type == "add" {
					d.w.Inf.DeliverAdd(f.Obj())
				} else {
					d.w.Inf.DeliverDelete(f.Obj())
				}
				d.emit(M{"ev": "DeliverFev"})
				continue
			}
			if len(d.w.Work) > 0 {
				d.startUnbind()
				continue
			}
			if d.w.CfgCur != d.w.LoadedCf && !d.liveOf("reload", "") {
				d.startReload()
				continue
			}
			return
		}
	}
	deadlocked := func() bool {
		// nothing is runnable although operations are alive: each waits for a keyed lock nobody will release
		if d.liveCount() == 0 || len(d.runnable()) > 0 {
			return false
		}
		ids := []int{}
		for id, oi := range d.ops {
			if !oi.op.Done && !oi.op.Dead {
				ids = append(ids, id)
			}
		}
		sort.Ints(ids)
		for _, id := range ids {
			oi := d.ops[id]
			d.emit(M{"ev": "Hang", "op": id, "typ": oi.typ, "why": "deadlock: waits for a lock that is never released", "waits": d.pend(oi)})
		}
		d.hung = true
		return true
	}
	drain()
	if d.hung || deadlocked() {
		return
	}
	d.startResync()
	drain()
	if deadlocked() {
		return
	}
	d.emit(M{"ev": "Quiesce"})
}

// beginTrace builds a fresh world for the current scenario and writes the Reset line.
func (d *driver) beginTrace(id int, extra M) {
	sc := d.sc
	w := env.NewWorld(sc.Cfgs, sc.NodeSub, sc.Cloud)
	d.w = w
	d.ops = map[int]*opInfo{}
	d.filtered = map[string][]string{}
	d.inc = map[string]int{}
	d.outageDone = false
	d.budget.faults, d.budget.crashes, d.budget.admin, d.budget.reloads = sc.Faults, sc.Crashes, sc.Admin, 2
	d.hung = false
	for app, r := range sc.Sts {
		w.SetSts(app, r, true)
	}
	for app, r := range sc.Dp {
		w.SetDp(app, r, true)
	}
	if err := w.StartProcess(); err != nil {
		panic(err)
	}
	d.buildAPI()
	for pl, size := range sc.Pools {
		code, _ := d.serve("POST", "/v1/pool", api.Pool{Name: pl, Size: size})
		if code != 200 {
			panic("pool setup failed")
		}
	}
	var confs []interface{}
	for _, c := range sc.Cfgs {
		confs = append(confs, c.Abstract())
	}
	specs := M{}
	for _, s := range sc.Specs {
		if s.Ranges == nil {
			s.Ranges = [][]string{}
		}
		specs[s.Name] = s
	}
	e := M{"ev": "Reset", "trace": id, "scenario": sc.Name, "configs": confs, "specs": specs, "nodesub": sc.NodeSub, "cloudOn": sc.Cloud}
	for k, v := range extra {
		e[k] = v
	}
	d.emit(e)
}

// emitPlain writes a line that carries no state (markers).
func (d *driver) emitPlain(e M) { d.emit(e) }

func (d *driver) runTrace(id, length int) {
	d.lagMode = d.rng.Intn(4) == 0
	d.slowType = ""
	if d.rng.Intn(3) == 0 {
		d.slowType = []string{"resync", "apirelease", "unbind", "filter", "bind", "poolupsert", "reload", "preempt"}[d.rng.Intn(8)]
	}
	d.beginTrace(id, nil)
	sc, w := d.sc, d.w
	if sc.Feat["rollout"] {
		d.rollout()
	}
	for i := 0; i < length && !d.hung; i++ {
		if !w.Alive {
			d.restart()
			continue
		}
		done := false
		for try := 0; try < 4 && !done; try++ {
			switch r := d.rng.Intn(sc.WStep + sc.WEnv + sc.WStart); {
			case r < sc.WStep:
				done = d.stepAction()
			case r < sc.WStep+sc.WEnv:
				done = d.envAction()
			default:
				done = d.startAction()
			}
		}
	}
	if !d.hung && sc.Feat["reload"] && w.Alive && len(sc.Cfgs) > 1 && d.rng.Intn(2) == 0 {
		// one more configuration change, loaded by the quiescence suffix while the pods bound so far are alive
		w.CfgCur = (w.CfgCur + 1) % len(sc.Cfgs)
		d.emit(M{"ev": "ChangeConfig", "conf": w.CfgCur + 1})
	}
	if !d.hung {
		d.quiesce()
	}
	// the pool get/delete API, at the very end: deleting a Pool object while operations are in flight (and creating it again)
	// makes binds that saw no Pool object race with the pre-allocation of the new one, which is outside C07's quantifier
	if !d.hung && w.Alive && sc.Feat["pool"] {
		for pl := range sc.Pools {
			for i := 0; i < 2; i++ {
				gc, _ := d.serve("GET", "/v1/pool/"+pl, nil)
				code, _ := d.serve("DELETE", "/v1/pool/"+pl, nil)
				d.emit(M{"ev": "DeletePool", "pool": pl, "code": code, "getcode": gc})
			}
		}
	}
}

func main() {
	klog.SetOutput(io.Discard)
	fs := flag.NewFlagSet("klog", flag.ContinueOnError)
	klog.InitFlags(fs)
	_ = fs.Set("logtostderr", "false")
	_ = fs.Set("stderrthreshold", "FATAL")
	seed := flag.Int64("seed", 1, "random seed")
	n := flag.Int("n", 20, "number of traces")
	length := flag.Int("len", 60, "driver actions per trace")
	out := flag.String("out", "", "output ndjson file")
	focus := flag.String("focus", "", "scenario family")
	schedFile := flag.String("schedules", "", "JSON file with model behaviours (schedules) to replay instead of random scheduling")
	flag.Parse()
	wr := os.Stdout
	if *out != "" {
		f, err := os.Create(*out)
		if err != nil {
			fmt.Fprintln(os.Stderr, err)
			os.Exit(2)
		}
		defer f.Close()
		wr = f
	}
	rng := rand.New(rand.NewSource(*seed))
	d := &driver{rng: rng, out: json.NewEncoder(wr)}
	hangs := 0
	if *schedFile != "" {
		// schedules are independent worlds: replay them concurrently, write the traces in order
		scheds := loadSchedules(*schedFile)
		bufs := make([]*bytes.Buffer, len(scheds))
		hung := make([]bool, len(scheds))
		sem := make(chan struct{}, 16)
		var wg sync.WaitGroup
		for i := range scheds {
			wg.Add(1)
			sem <- struct{}{}
			go func(i int) {
				defer wg.Done()
				defer func() { <-sem }()
				bufs[i] = bytes.NewBuffer(nil)
				dd := &driver{rng: rand.New(rand.NewSource(*seed + int64(i))), out: json.NewEncoder(bufs[i])}
				dd.replay(i, scheds[i])
				hung[i] = dd.hung
			}(i)
		}
		wg.Wait()
		lines := 0
		for i := range scheds {
			lines += bytes.Count(bufs[i].Bytes(), []byte("\n"))
			_, _ = wr.Write(bufs[i].Bytes())
			if hung[i] {
				hangs++
			}
		}
		fmt.Fprintf(os.Stderr, "ipamdrive: replayed %d schedules, %d lines, %d hangs\n", len(scheds), lines, hangs)
		if hangs > 0 {
			os.Exit(3)
		}
		return
	}
	for i := 0; i < *n; i++ {
		d.sc = pickScenario(rng, *focus)
		d.tid = i
		d.runTrace(i, *length)
		if d.hung {
			hangs++
		}
	}
	fmt.Fprintf(os.Stderr, "ipamdrive: %d traces, %d lines, %d hangs\n", *n, d.nLines, hangs)
	if hangs > 0 {
		os.Exit(3)
	}
}
