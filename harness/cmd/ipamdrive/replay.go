package main

import (
	"encoding/json"
	"fmt"
	"os"
	"sort"

	corev1 "k8s.io/api/core/v1"
	env "verifharness/ipamenv"
)

// A schedule is a behaviour of the TLA+ model (MC_GalaxyIPAM, variable hist): the driver replays its actions
// against the real code. Actions that are not possible on this code (an operation blocked on a held lock, an
// operation that already returned) are skipped and counted: the schedule was generated for a model, possibly a
// weakened one (an attack schedule), and only the recorded real execution is judged.
type schedAct struct {
	A        string     `json:"a"`
	Pod      string     `json:"pod"`
	Node     string     `json:"node"`
	Op       int        `json:"op"`
	F        int        `json:"f"`
	App      string     `json:"app"`
	Replicas int32      `json:"replicas"`
	IP       string     `json:"ip"`
	Key      env.KeyRec `json:"key"`
}

type schedule struct {
	Scenario string     `json:"scenario"`
	Guard    string     `json:"guard"`
	Violated string     `json:"violated"`
	Schedule []schedAct `json:"schedule"`
}

// mcScenario mirrors the scenarios of MC_GalaxyIPAM.tla (M_Specs, M_NodeSub, M_Configs, ...).
func mcScenario(name string) scenario {
	sc := scenario{Name: "mc:" + name, MaxInc: 9, MaxOps: 9, Sts: map[string]int32{}, Dp: map[string]int32{}, Pools: map[string]int{},
		NodeSub: map[string]string{"n1": "s1", "n2": "s1"}, Feat: feat("resync", "apirelease", "scale")}
	two := []env.Config{{{ID: "p1", Subnets: []string{"s1"}, IPs: []string{"ip1", "ip2"}}}}
	three := []env.Config{{{ID: "p1", Subnets: []string{"s1"}, IPs: []string{"ip1", "ip2", "ip3"}}}}
	sc.Cfgs = two
	switch name {
	case "sts-default":
		sc.Specs = []env.PodSpec{{Name: "s-0", Kind: "sts", App: "s", Policy: 0}}
		sc.Sts["s"] = 2
	case "sts-immutable":
		sc.Specs = []env.PodSpec{{Name: "s-0", Kind: "sts", App: "s", Policy: 1}}
		sc.Sts["s"] = 2
	case "sts-cloud":
		sc.Specs = []env.PodSpec{{Name: "s-0", Kind: "sts", App: "s", Policy: 0}}
		sc.Sts["s"] = 2
		sc.Cloud = true
	case "sts-syncall":
		sc.Specs = []env.PodSpec{{Name: "s-0", Kind: "sts", App: "s", Policy: 0}, {Name: "s-1", Kind: "sts", App: "s", Policy: 1}}
		sc.Sts["s"] = 2
	case "sts-two":
		sc.Specs = []env.PodSpec{{Name: "s-0", Kind: "sts", App: "s", Policy: 0}, {Name: "s-1", Kind: "sts", App: "s", Policy: 0}}
		sc.Sts["s"] = 2
	case "dp-immutable":
		sc.Cfgs = three
		sc.Specs = []env.PodSpec{{Name: "d-a", Kind: "dp", App: "d", Policy: 1}, {Name: "d-b", Kind: "dp", App: "d", Policy: 1}}
		sc.Dp["d"] = 1
	case "dp-scale":
		sc.Specs = []env.PodSpec{{Name: "d-a", Kind: "dp", App: "d", Policy: 1}, {Name: "d-b", Kind: "dp", App: "d", Policy: 1}}
		sc.Dp["d"] = 2
	case "dp-pool":
		sc.Specs = []env.PodSpec{{Name: "d-a", Kind: "dp", App: "d", Policy: 2, Pool: "pl"}, {Name: "e-a", Kind: "dp", App: "e", Policy: 2, Pool: "pl"}}
		sc.Dp["d"], sc.Dp["e"] = 1, 1
		sc.Pools["pl"] = 1
	default:
		panic("unknown model scenario " + name)
	}
	// pods the model's schedule never touches: after the schedule they ask for every address of the pool (pressure)
	for i := range allIPs(sc.Cfgs) {
		sc.Specs = append(sc.Specs, env.PodSpec{Name: fmt.Sprintf("t-%d", i), Kind: "sts", App: "t", Policy: 0})
	}
	sc.Sts["t"] = int32(len(allIPs(sc.Cfgs)))
	return sc
}

func loadSchedules(path string) []schedule {
	b, err := os.ReadFile(path)
	if err != nil {
		fmt.Fprintln(os.Stderr, err)
		os.Exit(2)
	}
	var out []schedule
	if err := json.Unmarshal(b, &out); err != nil {
		fmt.Fprintln(os.Stderr, "bad schedule file:", err)
		os.Exit(2)
	}
	return out
}

// replay runs one schedule as one trace.
func (d *driver) replay(id int, s schedule) {
	d.sc = mcScenario(s.Scenario)
	d.beginTrace(id, M{"schedule_guard": s.Guard, "schedule_violates": s.Violated})
	byStart := map[int]*opInfo{} // model op id (start order) -> operation
	started := 0
	note := func(before map[int]bool) {
		// operations are numbered in start order on both sides
		ids := []int{}
		for k := range d.ops {
			if !before[k] {
				ids = append(ids, k)
			}
		}
		sort.Ints(ids)
		for _, k := range ids {
			started++
			byStart[started] = d.ops[k]
		}
	}
	skipped := 0
	for _, a := range s.Schedule {
		if d.hung {
			break
		}
		if !d.w.Alive {
			break
		}
		before := map[int]bool{}
		for k := range d.ops {
			before[k] = true
		}
		truth := d.w.TruthPods()
		switch a.A {
		case "CreatePod":
			var spec *env.PodSpec
			for i := range d.sc.Specs {
				if d.sc.Specs[i].Name == a.Pod {
					spec = &d.sc.Specs[i]
				}
			}
			if _, exists := truth[a.Pod]; spec == nil || exists {
				skipped++
				continue
			}
			pv, _ := d.w.CreatePod(*spec)
			d.emit(M{"ev": "CreatePod", "pod": a.Pod, "uid": pv.UID, "ranges": pv.Ranges})
		case "DeletePod":
			if d.w.DeletePod(a.Pod) {
				delete(d.filtered, a.Pod)
				d.emit(M{"ev": "DeletePod", "pod": a.Pod})
			} else {
				skipped++
			}
		case "FinishPod":
			if d.w.SetPhase(a.Pod, corev1.PodSucceeded) {
				d.emit(M{"ev": "FinishPod", "pod": a.Pod})
			} else {
				skipped++
			}
		case "DeliverPod":
			if len(d.w.Pevq) > 0 {
				d.deliverPod()
			} else {
				skipped++
			}
		case "ScaleSts":
			d.w.SetSts(a.App, a.Replicas, true)
			d.emit(M{"ev": "ScaleSts", "app": a.App, "replicas": a.Replicas})
		case "ScaleDp":
			d.w.SetDp(a.App, a.Replicas, true)
			d.emit(M{"ev": "ScaleDp", "app": a.App, "replicas": a.Replicas})
		case "StartFilter":
			if _, ok := truth[a.Pod]; ok {
				d.startFilter(a.Pod)
			} else {
				skipped++
			}
		case "StartBind":
			if _, ok := truth[a.Pod]; ok {
				d.startBind(a.Pod, a.Node)
			} else {
				skipped++
			}
		case "StartUnbind":
			if len(d.w.Work) > 0 {
				d.startUnbind()
			} else {
				skipped++
			}
		case "StartResync":
			d.startResync()
		case "StartSyncAll":
			d.startSyncAll()
		case "KubeletRun":
			if v, ok := truth[a.Pod]; ok && v.Phase == "Pending" && v.Node != "" && d.w.SetPhase(a.Pod, corev1.PodRunning) {
				d.emit(M{"ev": "KubeletRun", "pod": a.Pod})
			} else {
				skipped++
			}
		case "StartApiRelease":
			// the model's IP names need not be the code's choice: address the IP by its key
			mem, _, _ := env.ProjectMem(d.w.Inner)
			ip := ""
			var names []string
			for n := range mem {
				names = append(names, n)
			}
			sort.Strings(names)
			for _, n := range names {
				if mem[n].Key == a.Key {
					ip = n
					break
				}
			}
			if ip == "" {
				skipped++
				continue
			}
			n0 := len(d.ops)
			d.startApiRelease(ip)
			if len(d.ops) == n0 {
				skipped++
			}
		case "Step":
			oi := byStart[a.Op]
			ok := false
			for _, r := range d.runnable() {
				if r == oi {
					ok = true
				}
			}
			if !ok {
				skipped++ // blocked on a lock the code holds, or the operation returned earlier than in the model
				continue
			}
			d.step(oi, a.F, 0)
			// The model's retry loop of pods/binding ends after one failed try (MaxBindTries = 1); the code's loop is
			// bounded by wall-clock time (500 ms ticks for 3 s). Let the real loop run out before going on, so that the
			// operation ends where the model's did and the rest of the schedule lines up.
			if oi.typ == "bind" && oi.op.Last != nil && oi.op.Last.Name == "binding" && oi.op.Last.Ret["res"] != "ok" {
				for guard := 0; guard < 12 && !oi.op.Done && !oi.op.Dead && oi.op.Pending != nil && oi.op.Pending.Name == "binding" && !d.hung; guard++ {
					d.step(oi, 0, 0)
				}
			}
		default:
			skipped++
		}
		note(before)
	}
	if !d.hung {
		d.emitPlain(M{"ev": "ScheduleEnd", "skipped": skipped})
		d.quiesce()
		d.pressure()
	}
}

// pressure: after a schedule has run and everything has settled, fresh pods ask for as many addresses as the pool has. An
// address that was wrongly freed while its pod lives is handed out again here, which turns a precursor (a live pod's
// address released) into the violation C01 speaks of (two live pods with the same address).
func (d *driver) pressure() {
	for _, s := range d.sc.Specs {
		if d.hung || !d.w.Alive || s.App != "t" {
			continue
		}
		pv, err := d.w.CreatePod(s)
		if err != nil {
			continue
		}
		d.emit(M{"ev": "CreatePod", "pod": s.Name, "uid": pv.UID, "ranges": pv.Ranges})
		for guard := 0; len(d.w.Pevq) > 0 && guard < 50; guard++ {
			d.deliverPod()
		}
		d.filterThenBind(s.Name)
	}
	if !d.hung {
		d.quiesce()
	}
}

func marshal(v interface{}) string {
	b, _ := json.Marshal(v)
	return string(b)
}
