// coredrive drives the real floatingip.IPAM (NewCrdIPAM) method by method over the harness-owned store,
// with store faults, crashes/restarts, administrator reservations with late watch events, run-time
// reconfiguration and operations injected into the unlocked windows of ConfigurePool/AllocateSpecificIP.
// It writes ndjson traces (event + projected post-state) that Trace_IPAMCore.tla validates.
package main

import (
	"encoding/json"
	"flag"
	"fmt"
	"math/rand"
	"net"
	"os"
	"sort"
	"sync"
	"time"

	"io"

	"k8s.io/klog"
	"tkestack.io/galaxy/pkg/api/galaxy/constant"
	"tkestack.io/galaxy/pkg/ipam/apis/galaxy/v1alpha1"
	"tkestack.io/galaxy/pkg/ipam/floatingip"
	"tkestack.io/galaxy/pkg/utils/nets"
	env "verifharness/ipamenv"
)

type ev map[string]interface{}

type pending struct {
	Type string `json:"type"`
	IP   string `json:"ip"`
}

type driver struct {
	rng    *rand.Rand
	store  *env.FipStore
	inj    *env.Injector
	inf    *env.FipInformerStub
	ipam   floatingip.IPAM
	cfgs   []env.Config
	cur    int
	alive  bool
	fev    []pending
	out    *json.Encoder
	nEv    int
	keys   []env.KeyRec
	admin  env.KeyRec
	budget struct{ faults, crashes, reloads, admin int }

	nestedMu   sync.Mutex
	nestedGoid int64
	nestedInj  *env.Injector
	outerInj   *env.Injector
	focus      string
}

// cumulative weights (out of 100): atomic, specific, reload, admin, deliver, crash, crash-in-multi
var weights = map[string][7]int{
	"":    {55, 63, 72, 82, 92, 96, 100},
	"c05": {48, 54, 62, 70, 80, 91, 100},
	"c08": {62, 66, 70, 78, 86, 90, 100},
	"c09": {40, 50, 68, 84, 96, 98, 100},
}

var (
	allKeys = []env.KeyRec{
		{Kind: "sts", App: "s", Pod: "s-0"}, {Kind: "sts", App: "s", Pod: "s-1"},
		{Kind: "dp", App: "d", Pod: "d-x"}, {Kind: "dp", App: "d"},
		{Pool: "pl"}, {Pool: "pl", Kind: "dp", App: "d", Pod: "d-y"},
	}
	cfgFamilies = [][]env.Config{
		{ // two pools, an IP moves between them, one IP disappears
			{{ID: "p1", Subnets: []string{"s1"}, IPs: []string{"ip1", "ip2"}}, {ID: "p2", Subnets: []string{"s2"}, IPs: []string{"ip3", "ip4"}}},
			{{ID: "p1", Subnets: []string{"s1"}, IPs: []string{"ip1"}}, {ID: "p2", Subnets: []string{"s2"}, IPs: []string{"ip2", "ip3"}}},
			{{ID: "p1", Subnets: []string{"s1"}, IPs: []string{"ip1", "ip2", "ip5"}}, {ID: "p2", Subnets: []string{"s2"}, IPs: []string{"ip3", "ip4"}}},
		},
		{ // one pool routable from two node subnets, plus a pool sharing s1
			{{ID: "p1", Subnets: []string{"s1", "s2"}, IPs: []string{"ip1", "ip2", "ip3"}}, {ID: "p2", Subnets: []string{"s1"}, IPs: []string{"ip5"}}},
			{{ID: "p1", Subnets: []string{"s1", "s2"}, IPs: []string{"ip1", "ip3"}}, {ID: "p2", Subnets: []string{"s1"}, IPs: []string{"ip5", "ip6"}}},
		},
		{ // single pool
			{{ID: "p1", Subnets: []string{"s1"}, IPs: []string{"ip1", "ip2", "ip3", "ip4"}}},
			{{ID: "p1", Subnets: []string{"s1"}, IPs: []string{"ip2", "ip3"}}},
		},
	}
)

func (d *driver) tick() {
	t := time.Now().UnixNano()
	for time.Now().UnixNano() == t {
	}
}

func (d *driver) newInstance() error {
	d.inf = env.NewFipInformerStub()
	d.ipam = floatingip.NewCrdIPAM(d.store.Client(), d.inf)
	pools, err := d.cfgs[d.cur].Pools()
	if err != nil {
		return err
	}
	d.inj.Reset(0, 0)
	return d.ipam.ConfigurePool(pools)
}

func (d *driver) snapshot(e ev) {
	if d.alive {
		mem, _, err := env.ProjectMem(d.ipam)
		if err != nil {
			e["memerr"] = err.Error()
			mem = map[string]env.MemRec{}
		}
		e["mem"] = mem
	} else {
		e["mem"] = map[string]env.MemRec{}
	}
	e["store"] = env.ProjectStore(d.store)
	e["pools"] = d.cfgs[d.cur].Abstract()
	e["alive"] = d.alive
	f := d.fev
	if f == nil {
		f = []pending{}
	}
	e["fev"] = append([]pending{}, f...)
}

func (d *driver) emit(e ev) {
	d.snapshot(e)
	d.nEv++
	if err := d.out.Encode(e); err != nil {
		panic(err)
	}
}

func attrOf(a floatingip.Attr) map[string]interface{} {
	return map[string]interface{}{"policy": int(a.Policy), "uid": a.Uid, "node": a.NodeName}
}

func ret(err error, ips []string) map[string]interface{} {
	if ips == nil {
		ips = []string{}
	}
	r := map[string]interface{}{"ok": err == nil, "err": "", "ips": ips}
	if err != nil {
		r["err"] = err.Error()
	}
	return r
}

func (d *driver) pickKey() env.KeyRec { return d.keys[d.rng.Intn(len(d.keys))] }
func (d *driver) pickAttr() floatingip.Attr {
	uids := []string{"", "u1", "u2", "u3"}
	nodes := []string{"", "n1", "n2"}
	return floatingip.Attr{Policy: constant.ReleasePolicy(d.rng.Intn(3)), Uid: uids[d.rng.Intn(len(uids))], NodeName: nodes[d.rng.Intn(len(nodes))]}
}
func (d *driver) confIPs() []string {
	var out []string
	for _, p := range d.cfgs[d.cur] {
		out = append(out, p.IPs...)
	}
	sort.Strings(out)
	return out
}
func (d *driver) allIPs() []string {
	seen := map[string]bool{}
	for _, c := range d.cfgs {
		for _, p := range c {
			for _, ip := range p.IPs {
				seen[ip] = true
			}
		}
	}
	var out []string
	for ip := range seen {
		out = append(out, ip)
	}
	sort.Strings(out)
	return out
}
func (d *driver) pickSubnet() string { return []string{"s1", "s2"}[d.rng.Intn(2)] }
func (d *driver) pickFault(max int) int {
	if d.budget.faults <= 0 || d.rng.Intn(3) != 0 {
		return 0
	}
	return 1 + d.rng.Intn(max)
}

// allocatedBy returns current (ip,key) pairs in memory.
func (d *driver) allocated() map[string]env.KeyRec {
	out := map[string]env.KeyRec{}
	if !d.alive {
		return out
	}
	mem, _, _ := env.ProjectMem(d.ipam)
	for ip, r := range mem {
		if r.Key != (env.KeyRec{}) && !r.Lab {
			out[ip] = r.Key
		}
	}
	return out
}

func (d *driver) noteFault(f int) {
	if f != 0 && d.inj.Injected {
		d.budget.faults--
	}
}

// one atomic IPAM method call, chosen at random; returns its event
func (d *driver) atomicOp() ev {
	alloc := d.allocated()
	var allocIPs []string
	for ip := range alloc {
		allocIPs = append(allocIPs, ip)
	}
	sort.Strings(allocIPs)
	pickAllocated := func() (string, env.KeyRec, bool) {
		if len(allocIPs) == 0 || d.rng.Intn(5) == 0 {
			ips := d.allIPs()
			return ips[d.rng.Intn(len(ips))], d.pickKey(), false
		}
		ip := allocIPs[d.rng.Intn(len(allocIPs))]
		if d.rng.Intn(6) == 0 {
			return ip, d.pickKey(), true
		}
		return ip, alloc[ip], true
	}
	d.tick()
	sel := d.rng.Intn(8)
	if d.focus == "c08" && d.rng.Intn(2) == 0 {
		sel = 7
	}
	switch sel {
	case 0, 1:
		key, sn, a, f := d.pickKey(), d.pickSubnet(), d.pickAttr(), d.pickFault(1)
		d.inj.Reset(f, 0)
		ip, err := d.ipam.AllocateInSubnet(key.String(), env.SubnetNet(sn), a)
		d.noteFault(f)
		var ips []string
		if err == nil {
			ips = []string{env.IPName(ip)}
		}
		return ev{"ev": "AllocateInSubnet", "key": key, "subnet": sn, "attr": attrOf(a), "f": f, "ret": ret(err, ips), "calls": d.inj.Calls()}
	case 2:
		_, oldK, _ := pickAllocated()
		newK, sn, a, f := d.pickKey(), d.pickSubnet(), d.pickAttr(), d.pickFault(2)
		d.inj.Reset(f, 0)
		err := d.ipam.AllocateInSubnetWithKey(oldK.String(), newK.String(), env.SubnetCIDR(sn), a)
		d.noteFault(f)
		return ev{"ev": "AllocateInSubnetWithKey", "oldK": oldK, "newK": newK, "subnet": sn, "attr": attrOf(a), "f": f, "ret": ret(err, nil), "calls": d.inj.Calls()}
	case 3:
		_, oldK, _ := pickAllocated()
		newK := oldK
		if d.rng.Intn(2) == 0 {
			newK = d.pickKey()
		}
		a, f := d.pickAttr(), d.pickFault(4)
		d.inj.Reset(f, 0)
		reserved, err := d.ipam.ReserveIP(oldK.String(), newK.String(), a)
		d.noteFault(f)
		r := ret(err, nil)
		r["reserved"] = reserved
		return ev{"ev": "ReserveIP", "oldK": oldK, "newK": newK, "attr": attrOf(a), "f": f, "ret": r, "calls": d.inj.Calls()}
	case 4:
		ip, key, _ := pickAllocated()
		a, f := d.pickAttr(), d.pickFault(2)
		d.inj.Reset(f, 0)
		err := d.ipam.UpdateAttr(key.String(), env.IPAddr(ip), a)
		d.noteFault(f)
		return ev{"ev": "UpdateAttr", "key": key, "ip": ip, "attr": attrOf(a), "f": f, "ret": ret(err, nil), "calls": d.inj.Calls()}
	case 5:
		ip, key, _ := pickAllocated()
		f := d.pickFault(1)
		d.inj.Reset(f, 0)
		err := d.ipam.Release(key.String(), env.IPAddr(ip))
		d.noteFault(f)
		return ev{"ev": "Release", "key": key, "ip": ip, "f": f, "ret": ret(err, nil), "calls": d.inj.Calls()}
	case 6:
		want := map[string]env.KeyRec{}
		arg := map[string]string{}
		n := 1 + d.rng.Intn(3)
		for i := 0; i < n; i++ {
			ip, key, _ := pickAllocated()
			want[ip] = key
			arg[env.IPAddr(ip).String()] = key.String()
		}
		f := d.pickFault(3)
		d.inj.Reset(f, 0)
		_, _, err := d.ipam.ReleaseIPs(arg)
		d.noteFault(f)
		return ev{"ev": "ReleaseIPs", "want": want, "f": f, "ret": ret(err, nil), "calls": d.inj.Calls()}
	default:
		return d.multiOp(0)
	}
}

func (d *driver) randomRanges() [][]string {
	ips := d.allIPs()
	k := 1 + d.rng.Intn(3)
	var out [][]string
	used := map[string]bool{}
	for i := 0; i < k; i++ {
		var r []string
		for _, ip := range ips {
			if d.rng.Intn(3) == 0 && (!used[ip] || d.rng.Intn(8) == 0) {
				r = append(r, ip)
				used[ip] = true
			}
		}
		if len(r) == 0 {
			ip := ips[d.rng.Intn(len(ips))]
			r = []string{ip}
			used[ip] = true
		}
		out = append(out, r)
	}
	return out
}

func (d *driver) multiOp(crashAfter int) ev {
	key, sn, a := d.pickKey(), d.pickSubnet(), d.pickAttr()
	ranges := d.randomRanges()
	var rr [][]nets.IPRange
	for _, r := range ranges {
		rr = append(rr, env.RangeOf(r))
	}
	f := 0
	if crashAfter == 0 {
		f = d.pickFault(len(ranges))
	}
	crashAt := 0
	if crashAfter > 0 {
		crashAt = crashAfter + 1
	}
	d.inj.Reset(f, crashAt)
	var ips []net.IP
	var err error
	crashed := false
	func() {
		defer func() {
			if v := recover(); v != nil {
				if !env.IsCrash(v) {
					panic(v)
				}
				crashed = true
			}
		}()
		ips, err = d.ipam.AllocateInSubnetsAndIPRange(key.String(), env.SubnetNet(sn), rr, a)
	}()
	d.noteFault(f)
	var names []string
	for _, ip := range ips {
		names = append(names, env.IPName(ip))
	}
	e := ev{"ev": "AllocateMulti", "key": key, "subnet": sn, "ranges": ranges, "attr": attrOf(a), "f": f, "ret": ret(err, names), "calls": d.inj.Calls()}
	if crashAfter > 0 {
		if !crashed {
			// the method issued fewer store calls than the crash point: it completed; report it as it was
			return e
		}
		d.alive = false
		d.fev = nil
		d.budget.crashes--
		e["ev"] = "CrashInMulti"
		e["j"] = crashAfter
		delete(e, "ret")
	}
	return e
}

// atomicOpNoFault runs one atomic operation from inside a window, in the calling goroutine, with its own
// call numbering and without faults; store calls are attributed by goroutine so that the outer method's
// numbering is not disturbed.
func (d *driver) atomicOpNoFault() ev {
	inner := &env.Injector{}
	d.nestedMu.Lock()
	d.nestedGoid, d.nestedInj = env.Goid(), inner
	d.nestedMu.Unlock()
	savedBudget := d.budget.faults
	d.budget.faults = 0
	outer := d.inj
	d.inj = inner
	defer func() {
		d.inj = outer
		d.budget.faults = savedBudget
		d.nestedMu.Lock()
		d.nestedGoid, d.nestedInj = 0, nil
		d.nestedMu.Unlock()
	}()
	return d.atomicOp()
}

func (d *driver) injFor() *env.Injector {
	d.nestedMu.Lock()
	defer d.nestedMu.Unlock()
	if d.nestedInj != nil && env.Goid() == d.nestedGoid {
		return d.nestedInj
	}
	return d.outerInj
}

func (d *driver) reload(withNested bool) {
	next := d.rng.Intn(len(d.cfgs))
	pools, err := d.cfgs[next].Pools()
	if err != nil {
		panic(err)
	}
	f := 0
	if d.budget.faults > 0 && d.rng.Intn(6) == 0 {
		f = 1
	}
	d.inj.Reset(f, 0)
	var nestedEv ev
	var nestedSnap ev
	inWindow := false
	var done chan struct{}
	if withNested && f == 0 {
		// Right after ConfigurePool's list returned, run another operation in its own goroutine. If the
		// method lists without holding the lock the operation completes inside the window; if it holds the
		// lock the operation blocks, the window times out and the operation completes after the reload.
		d.store.AfterList = func() {
			d.store.AfterList = nil
			done = make(chan struct{})
			go func() {
				defer close(done)
				nestedEv = d.atomicOpNoFault()
			}()
			select {
			case <-done:
				inWindow = true
				nestedSnap = ev{}
				d.snapshot(nestedSnap)
			case <-time.After(60 * time.Millisecond):
			}
		}
	}
	d.tick()
	err = d.ipam.ConfigurePool(pools)
	d.store.AfterList = nil
	d.noteFault(f)
	d.budget.reloads--
	if done != nil {
		<-done
	}
	if err == nil {
		d.cur = next
	}
	switch {
	case err != nil:
		d.emit(ev{"ev": "CfgList", "conf": next + 1, "f": f, "ret": ret(err, nil)})
	case inWindow:
		// list ; nested ; swap.  The state right after the list is the state the previous event logged.
		d.writeRaw(ev{"ev": "CfgList", "conf": next + 1, "f": 0, "ret": ret(nil, nil), "same": true})
		for k, v := range nestedSnap {
			nestedEv[k] = v
		}
		d.writeRaw(nestedEv)
		d.emit(ev{"ev": "CfgSwap"})
	default:
		if nestedEv != nil {
			// the operation ran after the reload released the lock; there was no moment to observe in between
			d.writeRaw(ev{"ev": "Reload", "conf": next + 1, "same": true})
			d.emit(nestedEv)
		} else {
			d.emit(ev{"ev": "Reload", "conf": next + 1})
		}
	}
}

func (d *driver) writeRaw(e ev) {
	d.nEv++
	if err := d.out.Encode(e); err != nil {
		panic(err)
	}
}

func (d *driver) specific(withNested bool) {
	// choose mostly a free configured ip
	ips := d.allIPs()
	ip := ips[d.rng.Intn(len(ips))]
	key, a := d.pickKey(), d.pickAttr()
	f := d.pickFault(1)
	d.inj.Reset(f, 0)
	var nestedEv []ev
	var nestedSnap ev
	reached := false
	if withNested {
		d.inj.WindowVerb = "create"
		d.inj.Window = func() {
			reached = true
			ch := make(chan struct{})
			go func() {
				defer close(ch)
				nestedEv = append(nestedEv, d.atomicOpNoFault())
			}()
			<-ch // AllocateSpecificIP holds no lock while creating; a blocked nested op would be a hang (C18)
			nestedSnap = ev{}
			d.snapshot(nestedSnap)
		}
	}
	d.tick()
	pre := ev{}
	d.snapshot(pre)
	err := d.ipam.AllocateSpecificIP(key.String(), env.IPAddr(ip), a)
	d.noteFault(f)
	calls := d.inj.Calls()
	base := ev{"key": key, "ip": ip, "attr": attrOf(a)}
	mk := func(name string, extra ev) ev {
		e := ev{"ev": name}
		for k, v := range base {
			e[k] = v
		}
		for k, v := range extra {
			e[k] = v
		}
		return e
	}
	if calls == 0 && !reached {
		// the check failed (or succeeded without reaching the store: impossible)
		d.emit(mk("SpecificCheck", ev{"ret": ret(err, nil)}))
		return
	}
	chk := mk("SpecificCheck", ev{"ret": ret(nil, nil), "same": true})
	d.writeRaw(chk)
	last := pre
	if len(nestedEv) > 0 {
		ne := nestedEv[0]
		for k, v := range nestedSnap {
			ne[k] = v
		}
		d.writeRaw(ne)
		last = nestedSnap
	}
	if err != nil {
		d.emit(mk("SpecificCreate", ev{"f": f, "ret": ret(err, nil)}))
		return
	}
	// create succeeded: post-create state = memory as before the create, store as now
	cr := mk("SpecificCreate", ev{"f": f, "ret": ret(nil, nil)})
	cur := ev{}
	d.snapshot(cur)
	cr["mem"], cr["store"], cr["pools"], cr["alive"], cr["fev"] = last["mem"], cur["store"], cur["pools"], cur["alive"], cur["fev"]
	d.writeRaw(cr)
	d.emit(mk("SpecificCommit", nil))
}

func (d *driver) adminOp() {
	ips := d.allIPs()
	ip := ips[d.rng.Intn(len(ips))]
	cur := d.store.RawGet(env.IPAddr(ip).String())
	if cur == nil && d.budget.admin > 0 {
		obj := env.AdminFip(ip, d.admin.String())
		if err := d.store.RawCreate(obj); err != nil {
			return
		}
		d.budget.admin--
		d.emit(ev{"ev": "AdminReserve", "ip": ip})
		return
	}
	if cur != nil {
		if _, lab := cur.Labels[constant.ReserveFIPLabel]; lab {
			_ = d.store.RawDelete(cur.Name)
			d.emit(ev{"ev": "AdminUnreserve", "ip": ip})
		}
	}
}

func (d *driver) deliver() {
	if len(d.fev) == 0 || !d.alive {
		return
	}
	p := d.fev[0]
	d.fev = d.fev[1:]
	obj := env.AdminFip(p.IP, d.admin.String())
	d.tick()
	if p.Type == "add" {
		d.inf.DeliverAdd(obj)
	} else {
		d.inf.DeliverDelete(obj)
	}
	d.emit(ev{"ev": "DeliverFev"})
}

func (d *driver) restart() {
	if err := d.newInstance(); err != nil {
		panic(err)
	}
	d.alive = true
	d.emit(ev{"ev": "Restart"})
}

func (d *driver) runTrace(id int, length int) {
	fam := cfgFamilies[d.rng.Intn(len(cfgFamilies))]
	d.cfgs = fam
	d.cur = 0
	d.store = env.NewFipStore()
	d.inj = &env.Injector{}
	d.outerInj = d.inj
	d.store.Hook = func(verb, name string) error { return d.injFor().Hook(verb, name) }
	d.store.After = func(err error) { d.injFor().NoteError() }
	d.store.OnWatch = func(typ string, obj *v1alpha1.FloatingIP) {
		if _, lab := obj.Labels[constant.ReserveFIPLabel]; lab && d.alive {
			d.fev = append(d.fev, pending{typ, env.IPName(env.IPAddr(obj.Name))})
		}
	}
	d.fev = nil
	d.alive = true
	d.budget.faults, d.budget.crashes, d.budget.reloads, d.budget.admin = 2, 1, 2, 2
	// a subset of keys per trace keeps collisions likely
	d.keys = nil
	for _, k := range allKeys {
		if d.rng.Intn(3) != 0 {
			d.keys = append(d.keys, k)
		}
	}
	if len(d.keys) < 2 {
		d.keys = allKeys[:3]
	}
	d.admin = env.KeyRec{Pool: "adm"}
	if err := d.newInstance(); err != nil {
		panic(err)
	}
	var confs []interface{}
	for _, c := range d.cfgs {
		confs = append(confs, c.Abstract())
	}
	d.emit(ev{"ev": "Reset", "trace": id, "configs": confs, "adminKey": d.admin})
	for i := 0; i < length; i++ {
		if !d.alive {
			d.restart()
			continue
		}
		w := weights[d.focus]
		switch r := d.rng.Intn(100); {
		case r < w[0]:
			d.emit(d.atomicOp())
		case r < w[1]:
			d.specific(d.rng.Intn(2) == 0)
		case r < w[2]:
			if d.budget.reloads > 0 {
				d.reload(d.rng.Intn(3) != 0)
			}
		case r < w[3]:
			d.adminOp()
		case r < w[4]:
			d.deliver()
		case r < w[5]:
			if d.budget.crashes > 0 {
				d.alive = false
				d.fev = nil
				d.budget.crashes--
				d.emit(ev{"ev": "Crash"})
			}
		default:
			if d.budget.crashes > 0 {
				d.emit(d.multiOp(1 + d.rng.Intn(2)))
			}
		}
	}
	// drain: deliver pending events so that the final state is an operation boundary with nothing in flight
	if !d.alive {
		d.restart()
	}
	for len(d.fev) > 0 {
		d.deliver()
	}
}

func main() {
	klog.SetOutput(io.Discard)
	kfs := flag.NewFlagSet("klog", flag.ContinueOnError)
	klog.InitFlags(kfs)
	_ = kfs.Set("logtostderr", "false")
	_ = kfs.Set("stderrthreshold", "FATAL")
	seed := flag.Int64("seed", 1, "random seed")
	n := flag.Int("n", 50, "number of traces")
	length := flag.Int("len", 25, "operations per trace")
	out := flag.String("out", "", "output ndjson file")
	focus := flag.String("focus", "", "operation mix: \"\", c05, c08, c09")
	flag.Parse()
	w := os.Stdout
	if *out != "" {
		f, err := os.Create(*out)
		if err != nil {
			fmt.Fprintln(os.Stderr, err)
			os.Exit(2)
		}
		defer f.Close()
		w = f
	}
	if _, ok := weights[*focus]; !ok {
		fmt.Fprintln(os.Stderr, "unknown focus", *focus)
		os.Exit(2)
	}
	d := &driver{rng: rand.New(rand.NewSource(*seed)), out: json.NewEncoder(w), focus: *focus}
	for i := 0; i < *n; i++ {
		d.runTrace(i, *length)
	}
	fmt.Fprintf(os.Stderr, "coredrive: %d traces, %d events\n", *n, d.nEv)
}
