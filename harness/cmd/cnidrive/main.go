// cnidrive drives the real galaxy daemon (pkg/galaxy: NewGalaxy, Init, SetClient, StartServer) over its unix socket,
// exactly like the kubelet-side shim, with recording plugin binaries (fakeplugin) on CNI_PATH. It runs the
// scenarios TLC computed from CNIMux.tla (pods, ADD/DEL request sequences, failure patterns) and compares, request
// by request, the response, the plugin invocations (command, network, interface, whose previous result the plugin
// was given, CNI_ARGS) and the saved network list with what the specification expects.
package main

import (
	"bytes"
	"context"
	"encoding/json"
	"flag"
	"fmt"
	"io"
	"math/rand"
	"net"
	"net/http"
	"os"
	"path/filepath"
	"sort"
	"strings"
	"time"

	corev1 "k8s.io/api/core/v1"
	"k8s.io/apimachinery/pkg/api/resource"
	metav1 "k8s.io/apimachinery/pkg/apis/meta/v1"
	k8sfake "k8s.io/client-go/kubernetes/fake"
	"k8s.io/klog"
	galaxyapi "tkestack.io/galaxy/pkg/api/galaxy"
	"tkestack.io/galaxy/pkg/api/galaxy/constant"
	"tkestack.io/galaxy/pkg/api/galaxy/private"
	"tkestack.io/galaxy/pkg/galaxy"
)

type annEl struct {
	Name  string `json:"name"`
	IfReq string `json:"ifreq"`
}
type podDesc struct {
	ID   string  `json:"id"`
	Ann  []annEl `json:"ann"`
	Form string  `json:"form"`
	Eni  bool    `json:"eni"`
}
type inv struct {
	Cmd  string `json:"cmd"`
	Net  string `json:"net"`
	Ifn  string `json:"ifn"`
	Prev string `json:"prev"`
}
type expect struct {
	Ok    bool     `json:"ok"`
	Invs  []inv    `json:"invs"`
	Saved []string `json:"saved"`
}
type request struct {
	Cmd  string `json:"cmd"`
	Cid  string `json:"cid"`
	Fail []struct {
		Net string `json:"net"`
		Cmd string `json:"cmd"`
	} `json:"fail"`
}
type scenario struct {
	Pods   map[string]podDesc `json:"pods"`
	Reqs   []request          `json:"reqs"`
	Expect []expect           `json:"expect"`
}
type vecFile struct {
	Defaults  []string   `json:"defaults"`
	Eni       string     `json:"eni"`
	Scenarios []scenario `json:"scenarios"`
}

type finding struct {
	Check    string      `json:"check"`
	Scenario interface{} `json:"scenario"`
	Req      int         `json:"req"`
	Detail   string      `json:"detail"`
}

const stateDir = "/var/lib/cni/galaxy"

func buildPod(name string, d podDesc, ipinfo string) *corev1.Pod {
	p := &corev1.Pod{ObjectMeta: metav1.ObjectMeta{Name: name, Namespace: "ns", Annotations: map[string]string{}},
		Spec: corev1.PodSpec{Containers: []corev1.Container{{Name: "c"}}}}
	if d.Eni {
		q := resource.NewQuantity(1, resource.DecimalSI)
		p.Spec.Containers[0].Resources.Requests = corev1.ResourceList{corev1.ResourceName(constant.ResourceName): *q}
	}
	if len(d.Ann) > 0 {
		if d.Form == "json" {
			var els []map[string]string
			for _, a := range d.Ann {
				e := map[string]string{"name": a.Name}
				if a.IfReq != "" {
					e["interface"] = a.IfReq
				}
				els = append(els, e)
			}
			b, _ := json.Marshal(els)
			p.Annotations[constant.MultusCNIAnnotation] = string(b)
		} else {
			var parts []string
			for _, a := range d.Ann {
				s := a.Name
				if a.IfReq != "" {
					s += "@" + a.IfReq
				}
				parts = append(parts, s)
			}
			p.Annotations[constant.MultusCNIAnnotation] = strings.Join(parts, ", ")
		}
	}
	if ipinfo != "" {
		p.Annotations[constant.ExtendedCNIArgsAnnotation] = ipinfo
	}
	return p
}

func main() {
	klog.SetOutput(io.Discard)
	kfs := flag.NewFlagSet("klog", flag.ContinueOnError)
	klog.InitFlags(kfs)
	_ = kfs.Set("logtostderr", "false")
	_ = kfs.Set("stderrthreshold", "FATAL")
	in := flag.String("vectors", "", "cnivectors.json written by TLC")
	out := flag.String("out", "", "result json")
	work := flag.String("work", "", "scratch directory")
	plugin := flag.String("plugin", "", "path of the fakeplugin binary")
	n := flag.Int("n", 300, "number of scenarios to run (seeded sample; 0 = all)")
	seed := flag.Int64("seed", 1, "sample seed")
	mode := flag.String("mode", "c12", "c12: CNIMux scenarios; c13: end-to-end delivery vectors")
	every := flag.Int("every", 1, "c13: use every k-th vector")
	flag.Parse()
	var vf vecFile
	if *mode == "c12" {
		b, err := os.ReadFile(*in)
		if err != nil {
			fmt.Fprintln(os.Stderr, err)
			os.Exit(2)
		}
		if err := json.Unmarshal(b, &vf); err != nil {
			fmt.Fprintln(os.Stderr, err)
			os.Exit(2)
		}
	} else {
		vf.Defaults, vf.Eni = []string{"neta", "netb"}, "netc"
	}
	// ---- plugin binaries and daemon configuration
	bin := filepath.Join(*work, "bin")
	_ = os.MkdirAll(bin, 0755)
	var nets []map[string]interface{}
	for _, nm := range []string{"neta", "netb", "netc"} {
		_ = os.Remove(filepath.Join(bin, "fake-"+nm))
		if err := os.Symlink(*plugin, filepath.Join(bin, "fake-"+nm)); err != nil {
			fmt.Fprintln(os.Stderr, err)
			os.Exit(2)
		}
		nets = append(nets, map[string]interface{}{"name": nm, "type": "fake-" + nm, "cniVersion": "0.2.0", "marker": "static-" + nm})
	}
	// netd exists only as a file in the network configuration directory
	_ = os.Remove(filepath.Join(bin, "fake-netd"))
	_ = os.Symlink(*plugin, filepath.Join(bin, "fake-netd"))
	_ = os.MkdirAll(filepath.Join(*work, "net.d"), 0755)
	_ = os.WriteFile(filepath.Join(*work, "net.d", "10-netd.conf"), []byte(`{"name":"netd","type":"fake-netd","cniVersion":"0.2.0","marker":"static-netd"}`), 0644)
	conf := map[string]interface{}{"NetworkConf": nets, "DefaultNetworks": vf.Defaults, "ENIIPNetwork": vf.Eni}
	cb, _ := json.Marshal(conf)
	confPath := filepath.Join(*work, "galaxy.json")
	_ = os.WriteFile(confPath, cb, 0644)
	logPath := filepath.Join(*work, "invocations.ndjson")
	ctlPath := filepath.Join(*work, "ctl.json")
	os.Setenv("FAKEPLUGIN_LOG", logPath)
	os.Setenv("FAKEPLUGIN_CTL", ctlPath)
	os.Setenv("DOCKER_HOST", "unix://"+filepath.Join(*work, "nodocker.sock"))

	g := galaxy.NewGalaxy()
	g.JsonConfigPath = confPath
	g.CNIPaths = []string{bin}
	g.NetworkConfDir = filepath.Join(*work, "net.d")
	if err := g.Init(); err != nil {
		fmt.Fprintln(os.Stderr, "galaxy init:", err)
		os.Exit(2)
	}
	client := k8sfake.NewSimpleClientset()
	g.SetClient(client)
	go func() { _ = g.StartServer() }()
	httpc := &http.Client{Transport: &http.Transport{DialContext: func(ctx context.Context, _, _ string) (net.Conn, error) {
		return net.Dial("unix", private.GalaxySocketPath)
	}}, Timeout: 60 * time.Second}
	up := false
	for i := 0; i < 100 && !up; i++ {
		if c, err := net.Dial("unix", private.GalaxySocketPath); err == nil {
			_ = c.Close()
			up = true
		} else {
			time.Sleep(20 * time.Millisecond)
		}
	}
	if !up {
		fmt.Fprintln(os.Stderr, "daemon socket did not come up")
		os.Exit(2)
	}
	send := func(cmd, cid, pod string) (int, string) {
		env := map[string]string{"CNI_COMMAND": cmd, "CNI_CONTAINERID": cid, "CNI_NETNS": "/proc/1/ns/net", "CNI_IFNAME": "eth0", "CNI_PATH": "/nonexistent",
			"CNI_ARGS": "IgnoreUnknown=1;K8S_POD_NAMESPACE=ns;K8S_POD_NAME=" + pod + ";K8S_POD_INFRA_CONTAINER_ID=" + cid}
		body, _ := json.Marshal(galaxyapi.CNIRequest{Env: env, Config: []byte(`{"cniVersion":"0.2.0","name":"galaxy-sdn","type":"galaxy-sdn"}`)})
		resp, err := httpc.Post("http://dummy/cni", "application/json", bytes.NewReader(body))
		if err != nil {
			return -1, err.Error()
		}
		defer resp.Body.Close()
		rb, _ := io.ReadAll(resp.Body)
		return resp.StatusCode, string(rb)
	}

	if *mode == "c13" {
		res := runC13(*in, logPath, client, send, *every)
		ob, _ := json.MarshalIndent(res, "", " ")
		if *out != "" {
			_ = os.WriteFile(*out, ob, 0644)
		}
		fmt.Fprintf(os.Stderr, "cnidrive c13: %v vectors run, %d findings\n", res["vectors_run"], len(res["findings"].([]finding)))
		return
	}
	idx := make([]int, len(vf.Scenarios))
	for i := range idx {
		idx[i] = i
	}
	rng := rand.New(rand.NewSource(*seed))
	rng.Shuffle(len(idx), func(i, j int) { idx[i], idx[j] = idx[j], idx[i] })
	if *n > 0 && *n < len(idx) {
		idx = idx[:*n]
	}
	var findings []finding
	add := func(check string, sc scenario, req int, detail string) {
		if len(findings) < 200 {
			findings = append(findings, finding{Check: check, Scenario: sc, Req: req, Detail: detail})
		}
	}
	requests, invocations, nontrivial := 0, 0, 0
	for k, si := range idx {
		sc := vf.Scenarios[si]
		// unique container ids and pod names per scenario so that nothing is shared between scenarios
		cidOf := map[string]string{"c1": fmt.Sprintf("s%dc1", k), "c2": fmt.Sprintf("s%dc2", k)}
		podOf := map[string]string{"c1": fmt.Sprintf("pod-%d-1", k), "c2": fmt.Sprintf("pod-%d-2", k)}
		ipinfoOf := map[string]string{}
		// the conf-dir network gets a fresh concrete name per scenario, so that every scenario exercises the
		// daemon's FIRST load of that network
		netd := fmt.Sprintf("x%d-netd", k)
		_ = os.WriteFile(filepath.Join(*work, "net.d", fmt.Sprintf("20-%s.conf", netd)),
			[]byte(fmt.Sprintf(`{"name":%q,"type":"fake-netd","cniVersion":"0.2.0","marker":"static-netd"}`, netd)), 0644)
		for c, d := range sc.Pods {
			for i := range d.Ann {
				if d.Ann[i].Name == "netd" {
					d.Ann = append([]annEl{}, d.Ann...)
					d.Ann[i].Name = netd
				}
			}
			ipinfo := ""
			if d.ID != "plain" {
				ipinfo = fmt.Sprintf(`{"common":{"ipinfos":[{"ip":"192.168.%d.%s/24","vlan":2,"gateway":"192.168.%d.1"}]}}`, k%250, c[1:], k%250)
			}
			ipinfoOf[c] = ipinfo
			_, _ = client.CoreV1().Pods("ns").Create(context.TODO(), buildPod(podOf[c], d, ipinfo), metav1.CreateOptions{})
		}
		hit := false
		for ri, r := range sc.Reqs {
			requests++
			_ = os.Remove(logPath)
			fails := append(r.Fail[:0:0], r.Fail...)
			for i := range fails {
				if fails[i].Net == "netd" {
					fails[i].Net = netd
				}
			}
			cb, _ := json.Marshal(fails)
			_ = os.WriteFile(ctlPath, cb, 0644)
			code, body := send(r.Cmd, cidOf[r.Cid], podOf[r.Cid])
			exp := sc.Expect[ri]
			if (code == 200) != exp.Ok {
				add("response", sc, ri, fmt.Sprintf("http %d %q, expected ok=%v", code, body, exp.Ok))
			}
			// invocations of this request
			var got []map[string]interface{}
			if lb, err := os.ReadFile(logPath); err == nil {
				for _, line := range strings.Split(strings.TrimSpace(string(lb)), "\n") {
					if line == "" {
						continue
					}
					var m map[string]interface{}
					if json.Unmarshal([]byte(line), &m) == nil {
						got = append(got, m)
					}
				}
			}
			invocations += len(got)
			if len(exp.Invs) > 1 || len(r.Fail) > 0 {
				hit = true
			}
			if len(got) != len(exp.Invs) {
				add("invocations", sc, ri, fmt.Sprintf("%d plugin invocations %s, expected %d %v", len(got), brief(got), len(exp.Invs), exp.Invs))
				continue
			}
			for i, e := range exp.Invs {
				m := got[i]
				if m["name"] == netd {
					m["name"] = "netd"
					if conf, ok := m["conf"].(map[string]interface{}); ok {
						conf["name"] = "netd"
					}
				}
				if m["cmd"] != e.Cmd || m["name"] != e.Net || m["ifname"] != e.Ifn || m["cid"] != cidOf[r.Cid] {
					add("invocations", sc, ri, fmt.Sprintf("invocation %d is %s, expected %+v on %s", i, brief(got[i:i+1]), e, cidOf[r.Cid]))
					continue
				}
				conf, _ := m["conf"].(map[string]interface{})
				// isolation: the previous result is that of the plugin invoked just before, in this request
				prev := ""
				if pr, ok := conf["prevResult"].(map[string]interface{}); ok {
					if ip4, ok := pr["ip4"].(map[string]interface{}); ok {
						prev, _ = ip4["ip"].(string)
					} else {
						prev = "?"
					}
				}
				wantPrev := ""
				if e.Prev != "" {
					wantPrev = fmt.Sprintf("10.%s.%d.2/24", cidOf[r.Cid][len(cidOf[r.Cid])-1:], int(e.Prev[len(e.Prev)-1]-'a')+1)
				}
				if prev != wantPrev {
					add("isolation-prevresult", sc, ri, fmt.Sprintf("%s %s on %s was given prevResult %q, expected %q", e.Cmd, e.Net, cidOf[r.Cid], prev, wantPrev))
				}
				if conf["marker"] != "static-"+e.Net || conf["name"] != e.Net {
					add("isolation-conf", sc, ri, fmt.Sprintf("%s %s received configuration %v", e.Cmd, e.Net, conf))
				}
				// CNI_ARGS: kubelet's args plus the pod's common args, nothing of another pod
				args, _ := m["args"].(string)
				keys := map[string]string{}
				for _, kv := range strings.Split(args, ";") {
					p := strings.SplitN(kv, "=", 2)
					if len(p) == 2 {
						if old, dup := keys[p[0]]; dup && old != p[1] {
							add("isolation-args", sc, ri, fmt.Sprintf("CNI_ARGS has two values for %s: %q", p[0], args))
						}
						keys[p[0]] = p[1]
					}
				}
				if keys["K8S_POD_NAME"] != podOf[r.Cid] || keys["K8S_POD_INFRA_CONTAINER_ID"] != cidOf[r.Cid] {
					add("isolation-args", sc, ri, fmt.Sprintf("CNI_ARGS %q for pod %s", args, podOf[r.Cid]))
				}
				wantInfo := ""
				if ipinfoOf[r.Cid] != "" {
					var x struct {
						Common map[string]json.RawMessage `json:"common"`
					}
					_ = json.Unmarshal([]byte(ipinfoOf[r.Cid]), &x)
					wantInfo = string(x.Common["ipinfos"])
				}
				if keys["ipinfos"] != wantInfo {
					add("isolation-args", sc, ri, fmt.Sprintf("CNI_ARGS ipinfos=%q, pod annotation has %q", keys["ipinfos"], wantInfo))
				}
			}
			// saved list
			var saved []string
			if sb, err := os.ReadFile(filepath.Join(stateDir, cidOf[r.Cid])); err == nil {
				var infos []struct{ NetworkType string }
				_ = json.Unmarshal(sb, &infos)
				for _, x := range infos {
					if x.NetworkType == netd {
						x.NetworkType = "netd"
					}
					saved = append(saved, x.NetworkType)
				}
			}
			if fmt.Sprint(saved) != fmt.Sprint(exp.Saved) && !(len(saved) == 0 && len(exp.Saved) == 0) {
				add("saved", sc, ri, fmt.Sprintf("saved network list %v, expected %v", saved, exp.Saved))
			}
		}
		if hit {
			nontrivial++
		}
		_ = os.Remove(filepath.Join(*work, "net.d", fmt.Sprintf("20-%s.conf", netd)))
		for _, c := range []string{"c1", "c2"} {
			_ = os.Remove(filepath.Join(stateDir, cidOf[c]))
			_ = client.CoreV1().Pods("ns").Delete(context.TODO(), podOf[c], metav1.DeleteOptions{})
		}
	}
	sort.Slice(findings, func(i, j int) bool { return findings[i].Check < findings[j].Check })
	res := map[string]interface{}{"scenarios_total": len(vf.Scenarios), "scenarios_run": len(idx), "requests": requests, "invocations": invocations,
		"nontrivial": nontrivial, "findings": findings}
	ob, _ := json.MarshalIndent(res, "", " ")
	if *out != "" {
		_ = os.WriteFile(*out, ob, 0644)
	}
	fmt.Fprintf(os.Stderr, "cnidrive: %d scenarios, %d requests, %d invocations, %d findings\n", len(idx), requests, invocations, len(findings))
}

func brief(ms []map[string]interface{}) string {
	var out []string
	for _, m := range ms {
		out = append(out, fmt.Sprintf("%v %v@%v", m["cmd"], m["name"], m["ifname"]))
	}
	return "[" + strings.Join(out, ", ") + "]"
}
