package main

import (
	"context"
	"encoding/json"
	"fmt"
	"os"
	"strings"

	corev1 "k8s.io/api/core/v1"
	metav1 "k8s.io/apimachinery/pkg/apis/meta/v1"
	"k8s.io/apimachinery/pkg/types"
	k8sfake "k8s.io/client-go/kubernetes/fake"
	"tkestack.io/galaxy/pkg/api/galaxy/constant"
	"tkestack.io/galaxy/pkg/api/k8s/schedulerapi"
	env "verifharness/ipamenv"
)

type dpool struct {
	Prefix int    `json:"prefix"`
	Gw     string `json:"gw"`
	Vlan   int    `json:"vlan"`
}
type dvec struct {
	Pools  []dpool `json:"pools"`
	Expect []struct {
		Idx    int    `json:"idx"`
		Prefix int    `json:"prefix"`
		Gw     string `json:"gw"`
		Vlan   int    `json:"vlan"`
	} `json:"expect"`
}

type delivered struct {
	Addr    string `json:"addr"`
	Prefix  int    `json:"prefix"`
	Gateway string `json:"gateway"`
	Vlan    int    `json:"vlan"`
}

// embed gives the concrete pod subnet, gateway and the single pool address of the i-th pool of a vector.
// embedNested places the pool inside the /24 (or /8) of pool 1: a smaller subnet carved out of a bigger one.
func embedNested(p dpool) (subnet, gateway, addr string) {
	switch p.Prefix {
	case 30:
		subnet = "11.0.0.40/30"
		if p.Gw == "first" {
			gateway, addr = "11.0.0.41", "11.0.0.42"
		} else {
			gateway, addr = "11.0.0.42", "11.0.0.41"
		}
	default:
		subnet, gateway, addr = "11.0.0.40/32", "11.0.0.40", "11.0.0.40"
	}
	return
}

func embed(i int, p dpool) (subnet, gateway, addr string) {
	o := 10 + i
	switch p.Prefix {
	case 8:
		subnet = fmt.Sprintf("%d.0.0.0/8", o)
		gateway = fmt.Sprintf("%d.0.0.1", o)
		if p.Gw == "last" {
			gateway = fmt.Sprintf("%d.255.255.254", o)
		}
		addr = fmt.Sprintf("%d.0.0.20", o)
	case 24:
		subnet = fmt.Sprintf("%d.0.0.0/24", o)
		gateway = fmt.Sprintf("%d.0.0.1", o)
		if p.Gw == "last" {
			gateway = fmt.Sprintf("%d.0.0.254", o)
		}
		addr = fmt.Sprintf("%d.0.0.20", o)
	case 30:
		subnet = fmt.Sprintf("%d.0.0.20/30", o)
		if p.Gw == "first" {
			gateway, addr = fmt.Sprintf("%d.0.0.21", o), fmt.Sprintf("%d.0.0.22", o)
		} else {
			gateway, addr = fmt.Sprintf("%d.0.0.22", o), fmt.Sprintf("%d.0.0.21", o)
		}
	default: // 32
		subnet = fmt.Sprintf("%d.0.0.20/32", o)
		gateway, addr = fmt.Sprintf("%d.0.0.20", o), fmt.Sprintf("%d.0.0.20", o)
	}
	return
}

// runC13 runs every vector end to end: real Bind (annotation) -> daemon ADD -> plugins' decoder, and compares the
// decoded list with the vector and with the persisted FloatingIP objects joined with the pool configuration.
func runC13(vecPath, logPath string, client *k8sfake.Clientset, send func(cmd, cid, pod string) (int, string), every int) map[string]interface{} {
	b, err := os.ReadFile(vecPath)
	if err != nil {
		fmt.Fprintln(os.Stderr, err)
		os.Exit(2)
	}
	var vf struct{ Vectors []dvec }
	if err := json.Unmarshal(b, &vf); err != nil {
		fmt.Fprintln(os.Stderr, err)
		os.Exit(2)
	}
	var findings []finding
	var sample interface{}
	runs := 0
	for vi, v := range vf.Vectors {
		if vi%every != 0 {
			continue
		}
		runs++
		var cfg env.Config
		var raw [][]string
		var want []delivered
		for i, p := range v.Pools {
			sn, gw, addr := embed(i+1, p)
			if i == 1 && v.Pools[0].Prefix <= 24 && p.Prefix >= 30 && vi%2 == 0 {
				sn, gw, addr = embedNested(p) // nested inside pool 1's subnet (valid: disjoint ranges)
			}
			cfg = append(cfg, env.PoolConf{ID: fmt.Sprintf("p%d", i+1), Subnets: []string{"s1"}, IPs: []string{}, RawSubnet: sn, RawGateway: gw, RawVlan: p.Vlan, RawIPs: []string{addr}})
			raw = append(raw, []string{addr})
			want = append(want, delivered{Addr: addr, Prefix: p.Prefix, Gateway: gw, Vlan: p.Vlan})
		}
		w := env.NewWorld([]env.Config{cfg}, map[string]string{"n1": "s1"}, false)
		w.SetSts("m", 1, true)
		if err := w.StartProcess(); err != nil {
			findings = append(findings, finding{Check: "config-accepted", Scenario: v, Detail: err.Error() + " config " + cfg.JSON()})
			continue
		}
		spec := env.PodSpec{Name: "m-0", Kind: "sts", App: "m", RawRanges: raw}
		drainEvents := func() {
			for {
				e, ok := w.DeliverPodEvent()
				if !ok {
					break
				}
				if e.Type == "del" {
					_ = w.Plugin.DeletePod(e.NewObj())
				}
			}
			w.DrainWork()
			for len(w.Work) > 0 {
				wk := w.Work[0]
				w.Work = w.Work[1:]
				_ = w.Plugin.VerifUnbind(wk.PodObj())
			}
		}
		if len(raw) >= 2 {
			// an earlier incarnation (release policy never) held only the LAST range; the pod is re-created asking for
			// all ranges, after a restart of galaxy-ipam: partially pre-owned request with the unowned ranges first
			first := env.PodSpec{Name: "m-0", Kind: "sts", App: "m", Policy: 2, RawRanges: raw[len(raw)-1:]}
			spec.Policy = 2
			pv0, _ := w.CreatePod(first)
			drainEvents()
			if nodes, _, ferr := w.Plugin.Filter(w.TruthPod("m-0"), w.NodeObjs([]string{"n1"})); ferr == nil && len(nodes) == 1 {
				_ = w.Plugin.Bind(&schedulerapi.ExtenderBindingArgs{PodName: "m-0", PodNamespace: env.NS, PodUID: types.UID(pv0.UID), Node: "n1"})
			}
			w.DeletePod("m-0")
			drainEvents()
			w.Crash()
			if err := w.Restart(); err != nil {
				findings = append(findings, finding{Check: "restart", Scenario: v, Detail: err.Error()})
				continue
			}
		}
		pv, _ := w.CreatePod(spec)
		drainEvents()
		pod := w.TruthPod("m-0")
		nodes, _, ferr := w.Plugin.Filter(pod, w.NodeObjs([]string{"n1"}))
		if ferr != nil || len(nodes) != 1 {
			findings = append(findings, finding{Check: "filter", Scenario: v, Detail: fmt.Sprintf("filter: %v nodes %d", ferr, len(nodes))})
			continue
		}
		if err := w.Plugin.Bind(&schedulerapi.ExtenderBindingArgs{PodName: "m-0", PodNamespace: env.NS, PodUID: types.UID(pv.UID), Node: "n1"}); err != nil {
			findings = append(findings, finding{Check: "bind", Scenario: v, Detail: err.Error()})
			continue
		}
		bound := w.TruthPod("m-0")
		// persisted objects joined with the configuration: the allocation the plugin must configure
		for _, d := range want {
			f := w.Store.RawGet(d.Addr)
			if f == nil || f.Spec.Key != "sts_ns_m_m-0" {
				findings = append(findings, finding{Check: "persisted", Scenario: v, Detail: "no FloatingIP object for " + d.Addr})
			}
		}
		// hand the annotation to the daemon's pod
		podName := fmt.Sprintf("c13-%d", vi)
		cid := fmt.Sprintf("d%dc1", vi)
		dp := &corev1.Pod{ObjectMeta: metav1.ObjectMeta{Name: podName, Namespace: "ns", Annotations: map[string]string{
			constant.ExtendedCNIArgsAnnotation: bound.Annotations[constant.ExtendedCNIArgsAnnotation], constant.MultusCNIAnnotation: "netc"}},
			Spec: corev1.PodSpec{Containers: []corev1.Container{{Name: "c"}}}}
		_, _ = client.CoreV1().Pods("ns").Create(context.TODO(), dp, metav1.CreateOptions{})
		_ = os.Remove(logPath)
		code, body := send("ADD", cid, podName)
		if code != 200 {
			findings = append(findings, finding{Check: "add", Scenario: v, Detail: fmt.Sprintf("ADD http %d %s", code, body)})
		}
		var got []delivered
		if lb, err := os.ReadFile(logPath); err == nil {
			line := strings.Split(strings.TrimSpace(string(lb)), "\n")[0]
			var m struct {
				Decoded   []delivered `json:"decoded"`
				DecodeErr string      `json:"decodeerr"`
			}
			_ = json.Unmarshal([]byte(line), &m)
			got = m.Decoded
			if m.DecodeErr != "" {
				findings = append(findings, finding{Check: "decode", Scenario: v, Detail: m.DecodeErr})
			}
		}
		if sample == nil {
			sample = map[string]interface{}{"pools": v.Pools, "annotation": bound.Annotations[constant.ExtendedCNIArgsAnnotation], "plugin_decoded": got}
		}
		if fmt.Sprint(got) != fmt.Sprint(want) {
			findings = append(findings, finding{Check: "delivered-equals-allocated", Scenario: v,
				Detail: fmt.Sprintf("plugin decoded %+v, allocated %+v (annotation %s)", got, want, bound.Annotations[constant.ExtendedCNIArgsAnnotation])})
		}
		_, _ = send("DEL", cid, podName)
		_ = client.CoreV1().Pods("ns").Delete(context.TODO(), podName, metav1.DeleteOptions{})
	}
	return map[string]interface{}{"vectors_total": len(vf.Vectors), "vectors_run": runs, "findings": findings, "sample": sample}
}
