package polenv

import (
	"net"
	"sort"
	"strings"
)

// AbsRule is a filter rule in the vocabulary of NetPol.tla (comments dropped, names abstract).
type AbsRule struct {
	Src    string   `json:"src"`
	Dst    string   `json:"dst"`
	Proto  string   `json:"proto"`
	Sets   []SetRef `json:"sets"`
	Ports  []string `json:"ports"`
	Ct     bool     `json:"ct"`
	Target string   `json:"target"`
	Opaque bool     `json:"opaque"` // carries matches the projection does not understand
}

type AbsSet struct {
	Type    string   `json:"type"` // "ip" / "net" / other
	Members []string `json:"members"`
}

type AbsKernel struct {
	Sets   map[string]AbsSet    `json:"sets"`
	Chains map[string][]AbsRule `json:"chains"`
}

func canonCIDR(c string) string {
	_, n, err := net.ParseCIDR(c)
	if err != nil {
		return c
	}
	return strings.TrimSuffix(n.String(), "/32")
}

// Abstract projects the kernel state. names: real chain/set name -> abstract name (NameTable); anything else that
// carries galaxy's prefix becomes "glx?:<name>", everything else keeps its name (foreign).
func (k *Kernel) Abstract(names map[string]string) AbsKernel {
	k.mu.Lock()
	defer k.mu.Unlock()
	abs := func(n string) string {
		if a, ok := names[n]; ok {
			return a
		}
		if strings.HasPrefix(n, "GLX-") {
			return "glx?:" + n
		}
		return n
	}
	addr := map[string]string{}
	for a, ip := range Addr {
		addr[ip] = a
	}
	block := map[string]string{}
	for b, c := range Blocks {
		block[canonCIDR(c)] = b
	}
	aaddr := func(ip string) string {
		if a, ok := addr[ip]; ok {
			return a
		}
		return ip
	}
	out := AbsKernel{Sets: map[string]AbsSet{}, Chains: map[string][]AbsRule{}}
	for n, s := range k.Sets {
		as := AbsSet{Type: strings.TrimPrefix(s.Type, "hash:"), Members: []string{}}
		for m := range s.Members {
			f := strings.Fields(m)
			e := f[0]
			if as.Type == "ip" {
				e = aaddr(e)
			} else if b, ok := block[e]; ok {
				e = b
			}
			if len(f) > 1 {
				e += " " + strings.Join(f[1:], " ")
			}
			as.Members = append(as.Members, e)
		}
		sort.Strings(as.Members)
		out.Sets[abs(n)] = as
	}
	for n, rules := range k.Chains {
		ar := []AbsRule{}
		for _, r := range rules {
			a := AbsRule{Src: r.Src, Dst: r.Dst, Proto: r.Proto, Sets: []SetRef{}, Ports: append([]string{}, r.Ports...), Ct: r.Ct, Target: r.Target, Opaque: len(r.Opaque) > 0}
			if a.Src != "" {
				a.Src = aaddr(a.Src)
			}
			if a.Dst != "" {
				a.Dst = aaddr(a.Dst)
			}
			if !builtinTargets[a.Target] {
				a.Target = abs(a.Target)
			}
			for _, s := range r.Sets {
				a.Sets = append(a.Sets, SetRef{Set: abs(s.Set), Dir: s.Dir})
			}
			ar = append(ar, a)
		}
		out.Chains[abs(n)] = ar
	}
	return out
}
