// Package polenv is the harness for galaxy's network-policy manager (pkg/policy): a strict in-memory model of the
// kernel's filter table and ipset, API objects served through listers, and the projection of the kernel state to
// the abstract form NetPol.tla speaks of.
package polenv

import (
	"bytes"
	"fmt"
	"net"
	"sort"
	"strings"
	"sync"

	"tkestack.io/galaxy/pkg/utils/ipset"
	utiliptables "tkestack.io/galaxy/pkg/utils/iptables"
)

// SetRef is one "-m set --match-set NAME dir" match.
type SetRef struct {
	Set string `json:"set"`
	Dir string `json:"dir"`
}

// Rule is a parsed filter rule. Opaque keeps whatever the parser does not understand (foreign rules).
type Rule struct {
	Src     string   `json:"src"` // single address ("" = any)
	Dst     string   `json:"dst"`
	Proto   string   `json:"proto"` // "all" when absent
	Sets    []SetRef `json:"sets"`
	Ports   []string `json:"ports"`
	Ct      bool     `json:"ct"` // -m conntrack --ctstate RELATED,ESTABLISHED
	Comment string   `json:"comment"`
	Target  string   `json:"target"`
	Opaque  []string `json:"opaque"`
}

// Canon is the identity of a rule (what iptables -C / -D compare) and its iptables-save text.
func (r Rule) Canon() string {
	var w []string
	if r.Src != "" {
		w = append(w, "-s", r.Src+"/32")
	}
	if r.Dst != "" {
		w = append(w, "-d", r.Dst+"/32")
	}
	if r.Proto != "" && r.Proto != "all" {
		w = append(w, "-p", r.Proto)
	}
	if r.Comment != "" {
		w = append(w, "-m", "comment", "--comment", saveString(r.Comment))
	}
	for _, s := range r.Sets {
		w = append(w, "-m", "set", "--match-set", s.Set, s.Dir)
	}
	if len(r.Ports) > 0 {
		w = append(w, "-m", "multiport", "--dports", strings.Join(r.Ports, ","))
	}
	if r.Ct {
		w = append(w, "-m", "conntrack", "--ctstate", "RELATED,ESTABLISHED")
	}
	w = append(w, r.Opaque...)
	if r.Target != "" {
		w = append(w, "-j", r.Target)
	}
	return strings.Join(w, " ")
}

// saveString quotes like xtables_save_string: only when a character outside [_-0-9a-zA-Z] occurs.
func saveString(v string) string {
	for _, c := range v {
		if !(c == '_' || c == '-' || (c >= '0' && c <= '9') || (c >= 'a' && c <= 'z') || (c >= 'A' && c <= 'Z')) {
			return `"` + v + `"`
		}
	}
	return v
}

func splitWords(line string) []string {
	var out []string
	cur := ""
	inq := false
	has := false
	for _, c := range line {
		switch {
		case c == '"':
			inq = !inq
			has = true
		case c == ' ' && !inq:
			if has || cur != "" {
				out = append(out, cur)
			}
			cur, has = "", false
		default:
			cur += string(c)
		}
	}
	if has || cur != "" {
		out = append(out, cur)
	}
	return out
}

// ParseRule parses the argument words of a rule (after "-A CHAIN").
func ParseRule(words []string) (Rule, error) {
	r := Rule{Proto: "all", Sets: []SetRef{}, Ports: []string{}, Opaque: []string{}}
	addr := func(s string) (string, error) {
		s = strings.TrimSuffix(s, "/32")
		if net.ParseIP(s) == nil {
			return "", fmt.Errorf("host/network `%s' not found", s)
		}
		return s, nil
	}
	for i := 0; i < len(words); i++ {
		w := words[i]
		arg := func() (string, error) {
			if i+1 >= len(words) {
				return "", fmt.Errorf("option %q requires an argument", w)
			}
			i++
			return strings.Trim(words[i], `"`), nil
		}
		var err error
		switch w {
		case "-s", "--source":
			var a string
			if a, err = arg(); err == nil {
				r.Src, err = addr(a)
			}
		case "-d", "--destination":
			var a string
			if a, err = arg(); err == nil {
				r.Dst, err = addr(a)
			}
		case "-p", "--protocol":
			r.Proto, err = arg()
		case "-j", "--jump":
			r.Target, err = arg()
		case "-m", "--match":
			var m string
			if m, err = arg(); err != nil {
				break
			}
			switch m {
			case "comment":
				if i+1 < len(words) && words[i+1] == "--comment" {
					i++
					r.Comment, err = arg()
				}
			case "set":
				if i+1 < len(words) && words[i+1] == "--match-set" {
					i++
					var name, dir string
					if name, err = arg(); err == nil {
						if dir, err = arg(); err == nil {
							r.Sets = append(r.Sets, SetRef{Set: name, Dir: dir})
						}
					}
				}
			case "multiport":
				if i+1 < len(words) && words[i+1] == "--dports" {
					i++
					var p string
					if p, err = arg(); err == nil {
						r.Ports = strings.Split(p, ",")
					}
				}
			case "conntrack":
				if i+1 < len(words) && words[i+1] == "--ctstate" {
					i++
					if _, err = arg(); err == nil {
						r.Ct = true
					}
				}
			default:
				r.Opaque = append(r.Opaque, "-m", m)
			}
		default:
			r.Opaque = append(r.Opaque, w)
		}
		if err != nil {
			return r, err
		}
	}
	return r, nil
}

// KSet is one ipset.
type KSet struct {
	Type    string
	Members map[string]bool // "10.0.0.1", "10.0.0.0/24", "10.0.0.5 nomatch"
}

// Rejection is a submission the kernel refused.
type Rejection struct {
	Op     string `json:"op"`
	Reason string `json:"reason"`
	Class  string `json:"class"` // "dangling" (references a chain/set that does not exist), "busy" (deleting something in use), "other"
	Detail string `json:"detail"`
}

// Kernel is the strict in-memory filter table plus ipset. Every method is atomic.
type Kernel struct {
	mu       sync.Mutex
	Chains   map[string][]Rule
	Builtin  map[string]bool
	Sets     map[string]*KSet
	Rejected []Rejection
	Calls    int
	// FailAt > 0: the FailAt-th mutating call from now fails without effect (transient kernel/exec error)
	FailAt int
}

var builtinTargets = map[string]bool{"ACCEPT": true, "DROP": true, "RETURN": true, "REJECT": true}

const noChain = "No chain/target/match by that name."

func NewKernel() *Kernel {
	k := &Kernel{Chains: map[string][]Rule{}, Builtin: map[string]bool{"INPUT": true, "FORWARD": true, "OUTPUT": true}, Sets: map[string]*KSet{}}
	for c := range k.Builtin {
		k.Chains[c] = []Rule{}
	}
	return k
}

func (k *Kernel) reject(op, class, detail string, err error) error {
	k.Rejected = append(k.Rejected, Rejection{Op: op, Reason: err.Error(), Class: class, Detail: detail})
	return err
}

func (k *Kernel) injected(op string) error {
	k.Calls++
	if k.FailAt > 0 {
		k.FailAt--
		if k.FailAt == 0 {
			return fmt.Errorf("%s: injected failure (exit status 4: resource temporarily unavailable)", op)
		}
	}
	return nil
}

// TakeRejections returns and clears the refusals recorded so far.
func (k *Kernel) TakeRejections() []Rejection {
	k.mu.Lock()
	defer k.mu.Unlock()
	r := k.Rejected
	k.Rejected = nil
	if r == nil {
		r = []Rejection{}
	}
	return r
}

// checkRefs: the rule may be inserted into `chains` (chain and target exist, sets exist).
func (k *Kernel) checkRefs(chains map[string][]Rule, chain string, r Rule) (string, error) {
	if _, ok := chains[chain]; !ok {
		return "dangling", fmt.Errorf("iptables: %s (chain %s)", noChain, chain)
	}
	if r.Target != "" && !builtinTargets[r.Target] {
		if _, ok := chains[r.Target]; !ok {
			return "dangling", fmt.Errorf("iptables: Couldn't load target `%s': %s", r.Target, noChain)
		}
	}
	for _, s := range r.Sets {
		if _, ok := k.Sets[s.Set]; !ok {
			return "dangling", fmt.Errorf("iptables: Set %s doesn't exist.", s.Set)
		}
	}
	return "", nil
}

func referenced(chains map[string][]Rule, name string) bool {
	for _, rules := range chains {
		for _, r := range rules {
			if r.Target == name {
				return true
			}
		}
	}
	return false
}

func (k *Kernel) setReferenced(name string) bool {
	for _, rules := range k.Chains {
		for _, r := range rules {
			for _, s := range r.Sets {
				if s.Set == name {
					return true
				}
			}
		}
	}
	return false
}

// ---- utiliptables.Interface ----

type IPTables struct{ K *Kernel }

var _ utiliptables.Interface = &IPTables{}

func (t *IPTables) GetVersion() (string, error) { return "1.4.21", nil }
func (t *IPTables) IsIpv6() bool                { return false }
func (t *IPTables) EnsurePolicy(table utiliptables.Table, chain utiliptables.Chain, policy string) error {
	return nil
}

func (t *IPTables) EnsureChain(table utiliptables.Table, chain utiliptables.Chain) (bool, error) {
	k := t.K
	k.mu.Lock()
	defer k.mu.Unlock()
	if _, ok := k.Chains[string(chain)]; ok {
		return true, nil
	}
	if err := k.injected("iptables -N"); err != nil {
		return false, err
	}
	k.Chains[string(chain)] = []Rule{}
	return false, nil
}

func (t *IPTables) FlushChain(table utiliptables.Table, chain utiliptables.Chain) error {
	k := t.K
	k.mu.Lock()
	defer k.mu.Unlock()
	if _, ok := k.Chains[string(chain)]; !ok {
		return fmt.Errorf("error flushing chain %q: exit status 1: iptables: %s", chain, noChain)
	}
	if err := k.injected("iptables -F"); err != nil {
		return err
	}
	k.Chains[string(chain)] = []Rule{}
	return nil
}

func (t *IPTables) DeleteChain(table utiliptables.Table, chain utiliptables.Chain) error {
	k := t.K
	k.mu.Lock()
	defer k.mu.Unlock()
	c := string(chain)
	rules, ok := k.Chains[c]
	if !ok {
		return fmt.Errorf("error deleting chain %q: exit status 1: iptables: %s", chain, noChain)
	}
	if k.Builtin[c] {
		return k.reject("iptables -X "+c, "other", c, fmt.Errorf("iptables: Invalid argument (built-in chain)"))
	}
	if referenced(k.Chains, c) {
		return k.reject("iptables -X "+c, "busy", c, fmt.Errorf("iptables: Too many links."))
	}
	if len(rules) > 0 {
		return k.reject("iptables -X "+c, "busy", c, fmt.Errorf("iptables: Directory not empty."))
	}
	if err := k.injected("iptables -X"); err != nil {
		return err
	}
	delete(k.Chains, c)
	return nil
}

func find(rules []Rule, r Rule) int {
	c := r.Canon()
	for i := range rules {
		if rules[i].Canon() == c {
			return i
		}
	}
	return -1
}

func (t *IPTables) EnsureRule(position utiliptables.RulePosition, table utiliptables.Table, chain utiliptables.Chain, args ...string) (bool, error) {
	k := t.K
	k.mu.Lock()
	defer k.mu.Unlock()
	c := string(chain)
	r, err := ParseRule(args)
	if err != nil {
		return false, k.reject("iptables -C "+c, "other", strings.Join(args, " "), err)
	}
	if rules, ok := k.Chains[c]; ok && find(rules, r) >= 0 {
		return true, nil
	}
	if class, err := k.checkRefs(k.Chains, c, r); err != nil {
		return false, k.reject(fmt.Sprintf("iptables %s %s %s", position, c, r.Canon()), class, r.Canon(), fmt.Errorf("error appending rule: exit status 1: %v", err))
	}
	if err := k.injected("iptables " + string(position)); err != nil {
		return false, err
	}
	if position == utiliptables.Prepend {
		k.Chains[c] = append([]Rule{r}, k.Chains[c]...)
	} else {
		k.Chains[c] = append(k.Chains[c], r)
	}
	return false, nil
}

func (t *IPTables) DeleteRule(table utiliptables.Table, chain utiliptables.Chain, args ...string) error {
	k := t.K
	k.mu.Lock()
	defer k.mu.Unlock()
	c := string(chain)
	r, err := ParseRule(args)
	if err != nil {
		return k.reject("iptables -C "+c, "other", strings.Join(args, " "), err)
	}
	rules, ok := k.Chains[c]
	if !ok {
		return nil // iptables -C exits with 1: "does not exist"
	}
	i := find(rules, r)
	if i < 0 {
		return nil
	}
	if err := k.injected("iptables -D"); err != nil {
		return err
	}
	k.Chains[c] = append(append([]Rule{}, rules[:i]...), rules[i+1:]...)
	return nil
}

func (t *IPTables) ListRule(table utiliptables.Table, chain utiliptables.Chain, args ...string) ([]string, error) {
	k := t.K
	k.mu.Lock()
	defer k.mu.Unlock()
	c := string(chain)
	rules, ok := k.Chains[c]
	if !ok {
		return nil, fmt.Errorf("error listing rule: exit status 1: iptables: %s", noChain)
	}
	var out []string
	if k.Builtin[c] {
		out = append(out, "-P "+c+" ACCEPT")
	} else {
		out = append(out, "-N "+c)
	}
	for _, r := range rules {
		out = append(out, "-A "+c+" "+r.Canon())
	}
	out = append(out, "")
	return out, nil
}

func (k *Kernel) save() string {
	var b bytes.Buffer
	b.WriteString("# Generated by the strict kernel model\n*filter\n")
	names := k.chainNames()
	for _, n := range names {
		if k.Builtin[n] {
			fmt.Fprintf(&b, ":%s ACCEPT [0:0]\n", n)
		} else {
			fmt.Fprintf(&b, ":%s - [0:0]\n", n)
		}
	}
	for _, n := range names {
		for _, r := range k.Chains[n] {
			fmt.Fprintf(&b, "-A %s %s\n", n, r.Canon())
		}
	}
	b.WriteString("COMMIT\n")
	return b.String()
}

func (k *Kernel) chainNames() []string {
	var names []string
	for n := range k.Chains {
		names = append(names, n)
	}
	sort.Slice(names, func(i, j int) bool {
		if k.Builtin[names[i]] != k.Builtin[names[j]] {
			return k.Builtin[names[i]]
		}
		return names[i] < names[j]
	})
	return names
}

// Save returns the iptables-save text of the filter table.
func (k *Kernel) Save() string {
	k.mu.Lock()
	defer k.mu.Unlock()
	return k.save()
}

func (t *IPTables) SaveInto(table utiliptables.Table, buffer *bytes.Buffer) error {
	k := t.K
	k.mu.Lock()
	defer k.mu.Unlock()
	if table != utiliptables.TableFilter {
		buffer.WriteString("*" + string(table) + "\nCOMMIT\n")
		return nil
	}
	buffer.WriteString(k.save())
	return nil
}

func (t *IPTables) Restore(table utiliptables.Table, data []byte, flush utiliptables.FlushFlag, counters utiliptables.RestoreCountersFlag) error {
	return t.RestoreAll(data, flush, counters)
}

// RestoreAll has the semantics of iptables-restore: all or nothing; a chain line creates the chain or, if it is
// a user-defined chain that exists, flushes it (also with --noflush); -A appends (no de-duplication); -X deletes an
// empty, unreferenced chain; every rule's chain, target and sets must exist when its line is read.
func (t *IPTables) RestoreAll(data []byte, flush utiliptables.FlushFlag, counters utiliptables.RestoreCountersFlag) error {
	k := t.K
	k.mu.Lock()
	defer k.mu.Unlock()
	work := map[string][]Rule{}
	for n, r := range k.Chains {
		work[n] = append([]Rule{}, r...)
	}
	fail := func(n int, line, class string, err error) error {
		return k.reject("iptables-restore", class, line, fmt.Errorf("exit status 1 (iptables-restore: line %d failed: %v)", n, err))
	}
	table := ""
	committed := false
	for n, line := range strings.Split(string(data), "\n") {
		line = strings.TrimSpace(line)
		if line == "" || strings.HasPrefix(line, "#") {
			continue
		}
		switch {
		case strings.HasPrefix(line, "*"):
			table = line[1:]
			if flush == utiliptables.FlushTables && table == "filter" {
				for c := range work {
					if k.Builtin[c] {
						work[c] = []Rule{}
					} else {
						delete(work, c)
					}
				}
			}
		case line == "COMMIT":
			committed = true
		case table != "filter":
			continue
		case strings.HasPrefix(line, ":"):
			f := strings.Fields(line[1:])
			if len(f) < 2 {
				return fail(n+1, line, "other", fmt.Errorf("bad chain line"))
			}
			if _, ok := work[f[0]]; !ok || !k.Builtin[f[0]] {
				work[f[0]] = []Rule{}
			}
		case strings.HasPrefix(line, "-A ") || strings.HasPrefix(line, "-I "):
			w := splitWords(line)
			if len(w) < 2 {
				return fail(n+1, line, "other", fmt.Errorf("bad rule line"))
			}
			r, err := ParseRule(w[2:])
			if err != nil {
				return fail(n+1, line, "other", err)
			}
			if class, err := k.checkRefs(work, w[1], r); err != nil {
				return fail(n+1, line, class, err)
			}
			if w[0] == "-I" {
				work[w[1]] = append([]Rule{r}, work[w[1]]...)
			} else {
				work[w[1]] = append(work[w[1]], r)
			}
		case strings.HasPrefix(line, "-X "):
			c := strings.TrimSpace(line[3:])
			rules, ok := work[c]
			if !ok {
				return fail(n+1, line, "dangling", fmt.Errorf("%s", noChain))
			}
			if len(rules) > 0 {
				return fail(n+1, line, "busy", fmt.Errorf("Directory not empty."))
			}
			if referenced(work, c) {
				return fail(n+1, line, "busy", fmt.Errorf("Too many links."))
			}
			delete(work, c)
		default:
			return fail(n+1, line, "other", fmt.Errorf("unknown line"))
		}
	}
	if !committed {
		return k.reject("iptables-restore", "other", "", fmt.Errorf("no COMMIT"))
	}
	if err := k.injected("iptables-restore"); err != nil {
		return err
	}
	k.Chains = work
	return nil
}

// ---- ipset.Interface ----

type IPSets struct{ K *Kernel }

var _ ipset.Interface = &IPSets{}

func (s *IPSets) GetVersion() (string, error) { return "6.29", nil }

func (s *IPSets) FlushSet(set string) error {
	k := s.K
	k.mu.Lock()
	defer k.mu.Unlock()
	ks, ok := k.Sets[set]
	if !ok {
		return k.reject("ipset flush "+set, "dangling", set, fmt.Errorf("ipset: The set with the given name does not exist"))
	}
	ks.Members = map[string]bool{}
	return nil
}

func (s *IPSets) DestroySet(set string) error {
	k := s.K
	k.mu.Lock()
	defer k.mu.Unlock()
	if _, ok := k.Sets[set]; !ok {
		return k.reject("ipset destroy "+set, "dangling", set, fmt.Errorf("ipset: The set with the given name does not exist"))
	}
	if k.setReferenced(set) {
		return k.reject("ipset destroy "+set, "busy", set, fmt.Errorf("ipset: Set cannot be destroyed: it is in use by a kernel component"))
	}
	if err := k.injected("ipset destroy"); err != nil {
		return err
	}
	delete(k.Sets, set)
	return nil
}

func (s *IPSets) DestroyAllSets() error { return fmt.Errorf("not supported by the kernel model") }

func (s *IPSets) CreateSet(set *ipset.IPSet, ignoreExistErr bool) error {
	k := s.K
	k.mu.Lock()
	defer k.mu.Unlock()
	if set.Name == "" || len(set.Name) > 31 {
		return k.reject("ipset create", "other", set.Name, fmt.Errorf("ipset: bad set name %q", set.Name))
	}
	if cur, ok := k.Sets[set.Name]; ok {
		if !ignoreExistErr {
			return k.reject("ipset create "+set.Name, "other", set.Name, fmt.Errorf("ipset: Set cannot be created: set with the same name already exists"))
		}
		if cur.Type != string(set.SetType) {
			return k.reject("ipset create "+set.Name, "other", set.Name, fmt.Errorf("ipset: Set cannot be created: set with the same name already exists (type %s)", cur.Type))
		}
		return nil
	}
	if err := k.injected("ipset create"); err != nil {
		return err
	}
	k.Sets[set.Name] = &KSet{Type: string(set.SetType), Members: map[string]bool{}}
	return nil
}

func validEntry(typ, entry string) bool {
	switch typ {
	case string(ipset.HashIP):
		return net.ParseIP(entry) != nil
	case string(ipset.HashNet):
		if net.ParseIP(entry) != nil {
			return true
		}
		_, n, err := net.ParseCIDR(entry)
		if err != nil {
			return false
		}
		ones, _ := n.Mask.Size()
		return ones > 0 // "Network address with zero prefix size cannot be stored in this type of sets" (ipset(8))
	}
	return entry != ""
}

func (s *IPSets) add(name, entry string, options []string, ignoreExist bool) error {
	k := s.K
	k.mu.Lock()
	defer k.mu.Unlock()
	ks, ok := k.Sets[name]
	if !ok {
		return k.reject("ipset add "+name, "dangling", name, fmt.Errorf("ipset: The set with the given name does not exist"))
	}
	if !validEntry(ks.Type, entry) {
		return k.reject("ipset add "+name, "other", entry, fmt.Errorf("ipset: Syntax error: cannot parse %q for set type %s", entry, ks.Type))
	}
	full := strings.Join(append([]string{entry}, options...), " ")
	// an element is identified by its address part; the flags (nomatch) are attributes of it
	for m := range ks.Members {
		if strings.Fields(m)[0] == entry {
			if !ignoreExist {
				return k.reject("ipset add "+name, "other", entry, fmt.Errorf("ipset: Element cannot be added to the set: it's already added"))
			}
			delete(ks.Members, m)
		}
	}
	if err := k.injected("ipset add"); err != nil {
		return err
	}
	ks.Members[full] = true
	return nil
}

func (s *IPSets) AddEntry(entry string, set *ipset.IPSet, ignoreExistErr bool) error {
	return s.add(set.Name, entry, nil, ignoreExistErr)
}

func (s *IPSets) AddEntryWithOptions(entry *ipset.Entry, set *ipset.IPSet, ignoreExistErr bool) error {
	return s.add(set.Name, entry.String(), entry.Options, ignoreExistErr)
}

func (s *IPSets) DelEntry(entry string, set string) error { return s.DelEntryWithOptions(set, entry) }

func (s *IPSets) DelEntryWithOptions(set, entry string, options ...string) error {
	k := s.K
	k.mu.Lock()
	defer k.mu.Unlock()
	ks, ok := k.Sets[set]
	if !ok {
		return k.reject("ipset del "+set, "dangling", set, fmt.Errorf("ipset: The set with the given name does not exist"))
	}
	for m := range ks.Members {
		if strings.Fields(m)[0] == entry {
			if err := k.injected("ipset del"); err != nil {
				return err
			}
			delete(ks.Members, m)
			return nil
		}
	}
	// not an error of the caller's references: deleting what is not there is reported by ipset but harmless
	return fmt.Errorf("ipset: Element cannot be deleted from the set: it's not added")
}

func (s *IPSets) TestEntry(entry string, set string) (bool, error) {
	k := s.K
	k.mu.Lock()
	defer k.mu.Unlock()
	ks, ok := k.Sets[set]
	if !ok {
		return false, fmt.Errorf("ipset: The set with the given name does not exist")
	}
	return ks.Members[entry], nil
}

func (s *IPSets) ListEntries(set string) ([]string, error) {
	k := s.K
	k.mu.Lock()
	defer k.mu.Unlock()
	ks, ok := k.Sets[set]
	if !ok {
		return nil, fmt.Errorf("error listing set: %s, error: ipset: The set with the given name does not exist", set)
	}
	out := []string{}
	for m := range ks.Members {
		out = append(out, m)
	}
	sort.Strings(out)
	return out, nil
}

func (s *IPSets) ListSets() ([]string, error) {
	k := s.K
	k.mu.Lock()
	defer k.mu.Unlock()
	out := []string{}
	for n := range k.Sets {
		out = append(out, n)
	}
	sort.Strings(out)
	return append(out, ""), nil // `ipset list -n` output split at newlines ends with an empty string
}

func (s *IPSets) SaveAllSets() ([]byte, error) {
	k := s.K
	k.mu.Lock()
	defer k.mu.Unlock()
	var b bytes.Buffer
	var names []string
	for n := range k.Sets {
		names = append(names, n)
	}
	sort.Strings(names)
	for _, n := range names {
		fmt.Fprintf(&b, "create %s %s\n", n, k.Sets[n].Type)
		var ms []string
		for m := range k.Sets[n].Members {
			ms = append(ms, m)
		}
		sort.Strings(ms)
		for _, m := range ms {
			fmt.Fprintf(&b, "add %s %s\n", n, m)
		}
	}
	return b.Bytes(), nil
}
