package polenv

import (
	"crypto/sha256"
	"encoding/base32"
	"fmt"
	"net"
	"sort"
	"strings"

	corev1 "k8s.io/api/core/v1"
	networkv1 "k8s.io/api/networking/v1"
	metav1 "k8s.io/apimachinery/pkg/apis/meta/v1"
	"k8s.io/apimachinery/pkg/util/intstr"
	corev1Lister "k8s.io/client-go/listers/core/v1"
	networkingv1Lister "k8s.io/client-go/listers/networking/v1"
	"k8s.io/client-go/tools/cache"
)

// ThisNode is the node the policy manager under test runs on (exported to it through MY_NODE_NAME).
const ThisNode = "thisnode"

// ---- abstract cluster (what the trace lines carry and NetPol.tla reads) ----

// Sel is a label selector: every listed "k=v" must be present. Has=false means the selector is absent (nil).
type Sel struct {
	Has    bool     `json:"has"`
	Labels []string `json:"labels"`
}

type Peer struct {
	Pod    Sel      `json:"pod"`
	Ns     Sel      `json:"ns"`
	Block  string   `json:"block"`  // name of an address block of the universe ("" = no ipBlock)
	Except []string `json:"except"` // block names
}

type Port struct {
	Proto string `json:"proto"` // "tcp" / "udp"
	Port  string `json:"port"`
}

type PRule struct {
	Ports []Port `json:"ports"`
	Peers []Peer `json:"peers"`
}

type Policy struct {
	Name    string   `json:"name"`
	Ns      string   `json:"ns"`
	Sel     []string `json:"sel"`   // spec.podSelector (always present)
	Types   []string `json:"types"` // spec.policyTypes as given ("Ingress", "Egress"), possibly empty
	Ingress []PRule  `json:"ingress"`
	Egress  []PRule  `json:"egress"`
}

type PodA struct {
	Name   string   `json:"name"`
	Ns     string   `json:"ns"`
	Labels []string `json:"labels"`
	IP     string   `json:"ip"`    // abstract address name ("" = none yet)
	Local  bool     `json:"local"` // scheduled on this node
}

type Cluster struct {
	Namespaces map[string][]string `json:"namespaces"` // name -> labels
	Pods       map[string]PodA     `json:"pods"`       // key "<name>_<ns>"
	Policies   map[string]Policy   `json:"policies"`   // key "<name>_<ns>"
}

// ---- universe of addresses and blocks ----

// Addr maps abstract address names to real addresses; Blocks maps block names to CIDRs.
var Addr = map[string]string{
	"a1": "10.0.0.1", "a2": "10.0.0.2", "a3": "10.0.0.3", "a4": "10.0.0.4", "a5": "10.0.0.5", "a6": "10.0.0.6",
	"x1": "192.168.0.1", "x2": "192.168.0.2", "x3": "172.16.0.1",
}

var Blocks = map[string]string{
	"B0":  "0.0.0.0/0",
	"B1":  "192.168.0.0/24",
	"B1e": "192.168.0.3/31", // not in canonical form: 192.168.0.2/31 = {x2}
	"B2":  "10.0.0.0/24",
	"B2e": "10.0.0.2/32", // a single pod address
	"B2h": "10.0.0.4/30", // 10.0.0.4 .. 10.0.0.7 = {a4, a5, a6}
}

// BlockMembers says which universe addresses a block contains (handed to the specification; computed with net).
func BlockMembers() map[string][]string {
	out := map[string][]string{}
	for b, c := range Blocks {
		_, n, _ := net.ParseCIDR(c)
		out[b] = []string{}
		for a, ip := range Addr {
			if n.Contains(net.ParseIP(ip)) {
				out[b] = append(out[b], a)
			}
		}
		sort.Strings(out[b])
	}
	return out
}

// BlockPrefixLen gives the prefix length of every block; Unstorable lists the blocks a hash:net set cannot hold.
func BlockPrefixLen() (map[string]int, []string) {
	out, un := map[string]int{}, []string{}
	for b, c := range Blocks {
		_, n, _ := net.ParseCIDR(c)
		out[b], _ = n.Mask.Size()
		if out[b] == 0 {
			un = append(un, b)
		}
	}
	return out, un
}

// ---- real API objects ----

func labelMap(ls []string) map[string]string {
	m := map[string]string{}
	for _, l := range ls {
		kv := strings.SplitN(l, "=", 2)
		m[kv[0]] = kv[1]
	}
	return m
}

func selOf(s Sel) *metav1.LabelSelector {
	if !s.Has {
		return nil
	}
	return &metav1.LabelSelector{MatchLabels: labelMap(s.Labels)}
}

func portsOf(ps []Port) []networkv1.NetworkPolicyPort {
	var out []networkv1.NetworkPolicyPort
	for _, p := range ps {
		proto := corev1.ProtocolTCP
		if p.Proto == "udp" {
			proto = corev1.ProtocolUDP
		}
		port := intstr.Parse(p.Port)
		np := networkv1.NetworkPolicyPort{Port: &port}
		if !(p.Proto == "tcp" && p.Port == "80") { // TCP port 80 leaves the protocol to its default
			np.Protocol = &proto
		}
		out = append(out, np)
	}
	return out
}

func peersOf(ps []Peer) []networkv1.NetworkPolicyPeer {
	var out []networkv1.NetworkPolicyPeer
	for _, p := range ps {
		np := networkv1.NetworkPolicyPeer{PodSelector: selOf(p.Pod), NamespaceSelector: selOf(p.Ns)}
		if p.Block != "" {
			np.IPBlock = &networkv1.IPBlock{CIDR: Blocks[p.Block]}
			for _, e := range p.Except {
				np.IPBlock.Except = append(np.IPBlock.Except, Blocks[e])
			}
		}
		out = append(out, np)
	}
	return out
}

func (p Policy) Object() *networkv1.NetworkPolicy {
	np := &networkv1.NetworkPolicy{ObjectMeta: metav1.ObjectMeta{Name: p.Name, Namespace: p.Ns},
		Spec: networkv1.NetworkPolicySpec{PodSelector: metav1.LabelSelector{MatchLabels: labelMap(p.Sel)}}}
	for _, t := range p.Types {
		np.Spec.PolicyTypes = append(np.Spec.PolicyTypes, networkv1.PolicyType(t))
	}
	for _, r := range p.Ingress {
		np.Spec.Ingress = append(np.Spec.Ingress, networkv1.NetworkPolicyIngressRule{Ports: portsOf(r.Ports), From: peersOf(r.Peers)})
	}
	for _, r := range p.Egress {
		np.Spec.Egress = append(np.Spec.Egress, networkv1.NetworkPolicyEgressRule{Ports: portsOf(r.Ports), To: peersOf(r.Peers)})
	}
	return np
}

func (p PodA) Object() *corev1.Pod {
	o := &corev1.Pod{ObjectMeta: metav1.ObjectMeta{Name: p.Name, Namespace: p.Ns, Labels: labelMap(p.Labels)}}
	if p.Local {
		o.Spec.NodeName = ThisNode
	} else {
		o.Spec.NodeName = "othernode"
	}
	if p.IP != "" {
		o.Status.PodIP = Addr[p.IP]
		o.Status.Phase = corev1.PodRunning
	}
	return o
}

// ---- listers over indexers the driver owns ----

type syncedInformer struct{ cache.SharedIndexInformer }

func (syncedInformer) HasSynced() bool { return true }

// API holds the objects the policy manager reads.
type API struct {
	pods, nss, pols cache.Indexer
}

func NewAPI() *API {
	idx := func() cache.Indexer {
		return cache.NewIndexer(cache.MetaNamespaceKeyFunc, cache.Indexers{cache.NamespaceIndex: cache.MetaNamespaceIndexFunc})
	}
	return &API{pods: idx(), nss: idx(), pols: idx()}
}

func (a *API) PodInformer() cache.SharedIndexInformer { return syncedInformer{} }
func (a *API) PodLister() corev1Lister.PodLister      { return corev1Lister.NewPodLister(a.pods) }
func (a *API) NamespaceLister() corev1Lister.NamespaceLister {
	return corev1Lister.NewNamespaceLister(a.nss)
}
func (a *API) PolicyLister() networkingv1Lister.NetworkPolicyLister {
	return networkingv1Lister.NewNetworkPolicyLister(a.pols)
}

// Load replaces the served objects by those of the cluster.
func (a *API) Load(c Cluster) {
	_ = a.pods.Replace(nil, "")
	_ = a.nss.Replace(nil, "")
	_ = a.pols.Replace(nil, "")
	for n, ls := range c.Namespaces {
		_ = a.nss.Add(&corev1.Namespace{ObjectMeta: metav1.ObjectMeta{Name: n, Labels: labelMap(ls)}})
	}
	for _, p := range c.Pods {
		_ = a.pods.Add(p.Object())
	}
	for _, p := range c.Policies {
		_ = a.pols.Add(p.Object())
	}
}

// ---- names galaxy derives (re-implemented here from doc/network-policy.md and the GLX naming scheme) ----

func hash16(s string) string {
	h := sha256.Sum256([]byte(s))
	return base32.StdEncoding.EncodeToString(h[:])[:16]
}

// NameTable maps every real chain / set name that can belong to an object of the universe to its abstract name.
func NameTable(objects []string) map[string]string {
	t := map[string]string{"GLX-INGRESS": "ingress", "GLX-EGRESS": "egress"}
	for _, o := range objects { // o = "<name>_<ns>"
		h := hash16(o)
		t["GLX-PLCY-"+h] = "plcy:" + o
		t["GLX-POD-"+h] = "podc:" + o
		t["GLX-ip-"+h] = "ip:" + o
		for i := 0; i < 4; i++ {
			t[fmt.Sprintf("GLX-sip-%d-%s", i, h)] = fmt.Sprintf("sip:%d:%s", i, o)
			t[fmt.Sprintf("GLX-snet-%d-%s", i, h)] = fmt.Sprintf("snet:%d:%s", i, o)
			t[fmt.Sprintf("GLX-dip-%d-%s", i, h)] = fmt.Sprintf("dip:%d:%s", i, o)
			t[fmt.Sprintf("GLX-dnet-%d-%s", i, h)] = fmt.Sprintf("dnet:%d:%s", i, o)
		}
	}
	return t
}
