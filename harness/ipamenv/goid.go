package ipamenv

import (
	"bytes"
	"runtime"
	"strconv"
)

// Goid returns the id of the calling goroutine (parsed from the stack header). It is only used to attribute
// interposed calls to the operation that issued them.
func Goid() int64 {
	var buf [64]byte
	n := runtime.Stack(buf[:], false)
	// "goroutine 123 [running]:..."
	b := buf[:n]
	b = bytes.TrimPrefix(b, []byte("goroutine "))
	i := bytes.IndexByte(b, ' ')
	if i < 0 {
		return -1
	}
	id, err := strconv.ParseInt(string(b[:i]), 10, 64)
	if err != nil {
		return -1
	}
	return id
}
