package ipamenv

import (
	"context"
	"encoding/json"
	"errors"
	"fmt"
	"sort"
	"strings"
	"sync"
	"tkestack.io/galaxy/pkg/utils/nets"

	corev1 "k8s.io/api/core/v1"
	extlisters "k8s.io/apiextensions-apiserver/pkg/client/listers/apiextensions/v1"
	apierrors "k8s.io/apimachinery/pkg/api/errors"
	"k8s.io/apimachinery/pkg/api/resource"
	metav1 "k8s.io/apimachinery/pkg/apis/meta/v1"
	"k8s.io/apimachinery/pkg/runtime/schema"
	"k8s.io/apimachinery/pkg/types"
	"k8s.io/client-go/kubernetes"
	k8sfake "k8s.io/client-go/kubernetes/fake"
	corev1client "k8s.io/client-go/kubernetes/typed/core/v1"
	appslisters "k8s.io/client-go/listers/apps/v1"
	corelisters "k8s.io/client-go/listers/core/v1"
	"k8s.io/client-go/tools/cache"
	"tkestack.io/galaxy/pkg/api/galaxy/constant"
	"tkestack.io/galaxy/pkg/ipam/apis/galaxy/v1alpha1"
	galaxylisters "tkestack.io/galaxy/pkg/ipam/client/listers/galaxy/v1alpha1"
	"tkestack.io/galaxy/pkg/ipam/cloudprovider/rpc"
	ipamcontext "tkestack.io/galaxy/pkg/ipam/context"
	"tkestack.io/galaxy/pkg/ipam/floatingip"
	"tkestack.io/galaxy/pkg/ipam/schedulerplugin"
)

// PodSpec is the abstract, static description of a pod identity.
type PodSpec struct {
	Name   string     `json:"name"`
	Kind   string     `json:"kind"` // sts, dp, tapp, bare
	App    string     `json:"app"`
	Pool   string     `json:"pool"`
	Policy int        `json:"policy"` // 0 default, 1 immutable, 2 never
	Ranges [][]string `json:"ranges"`
	// RawRanges, if set, are literal request_ip_range strings (C13)
	RawRanges [][]string `json:"-"`
	// ArgsAnn, if set for a pod without ranges, is the literal value of the cni args annotation: "empty" (present but
	// empty), "null", "{}" -- all mean "no arguments" (typed-surface robustness, C18)
	ArgsAnn string `json:"-"`
}

// PodView is the abstract view of a pod object (API truth, lister copy or event snapshot).
type PodView struct {
	PodSpec
	UID   string   `json:"uid"`
	Phase string   `json:"phase"` // Pending, Running, Done
	Node  string   `json:"node"`
	Ann   []string `json:"ann"` // IPs written by the binding, in order
}

var podGR = schema.GroupResource{Resource: "pods"}

// BuildPod renders the real pod object of a spec.
func BuildPod(s PodSpec, uid string) *corev1.Pod {
	q := resource.NewQuantity(1, resource.DecimalSI)
	p := &corev1.Pod{
		ObjectMeta: metav1.ObjectMeta{Name: s.Name, Namespace: NS, UID: types.UID(uid), Annotations: map[string]string{}},
		Spec: corev1.PodSpec{Containers: []corev1.Container{{Resources: corev1.ResourceRequirements{
			Requests: corev1.ResourceList{corev1.ResourceName(constant.ResourceName): *q}}}}},
		Status: corev1.PodStatus{Phase: corev1.PodPending},
	}
	switch s.Kind {
	case "sts":
		p.OwnerReferences = []metav1.OwnerReference{{Kind: "StatefulSet", Name: s.App}}
	case "dp":
		p.OwnerReferences = []metav1.OwnerReference{{Kind: "ReplicaSet", Name: s.App + "-rs1"}}
	case "tapp":
		p.OwnerReferences = []metav1.OwnerReference{{Kind: "TApp", Name: s.App}}
	}
	switch s.Policy {
	case 1:
		p.Annotations[constant.ReleasePolicyAnnotation] = constant.Immutable
	case 2:
		p.Annotations[constant.ReleasePolicyAnnotation] = constant.Never
	}
	if s.Pool != "" {
		p.Annotations[constant.IPPoolAnnotation] = s.Pool
	}
	if len(s.Ranges) == 0 && len(s.RawRanges) == 0 && s.ArgsAnn != "" {
		p.Annotations[constant.ExtendedCNIArgsAnnotation] = map[string]string{"empty": "", "null": "null", "{}": "{}"}[s.ArgsAnn]
	}
	if len(s.Ranges) > 0 || len(s.RawRanges) > 0 {
		var rr [][]string
		for _, r := range s.Ranges {
			rr = append(rr, RangeStrings(r))
		}
		if len(s.RawRanges) > 0 {
			rr = s.RawRanges
		}
		b, _ := json.Marshal(map[string]interface{}{"request_ip_range": rr, "common": map[string]interface{}{}})
		p.Annotations[constant.ExtendedCNIArgsAnnotation] = string(b)
	}
	return p
}

// ViewOf projects a real pod object (built by BuildPod and modified by binding/kubelet) to its abstract view.
func ViewOf(p *corev1.Pod, spec PodSpec) PodView {
	v := PodView{PodSpec: spec, UID: string(p.UID), Node: p.Spec.NodeName, Ann: []string{}}
	switch p.Status.Phase {
	case corev1.PodRunning:
		v.Phase = "Running"
	case corev1.PodSucceeded, corev1.PodFailed:
		v.Phase = "Done"
	default:
		v.Phase = "Pending"
	}
	if v.Ranges == nil {
		v.Ranges = [][]string{}
	}
	if args, err := constant.UnmarshalCniArgs(p.Annotations[constant.ExtendedCNIArgsAnnotation]); err == nil && args != nil {
		for _, info := range args.Common.IPInfos {
			if info.IP != nil {
				v.Ann = append(v.Ann, IPName(info.IP.IP))
			}
		}
		// the ranges this very object asks for (incarnations of a name may differ: template changes)
		if len(args.RequestIPRange) > 0 && len(spec.RawRanges) == 0 {
			v.Ranges = [][]string{}
			for _, rl := range args.RequestIPRange {
				names := []string{}
				for _, r := range rl {
					for a := nets.IPToInt(r.First); a <= nets.IPToInt(r.Last) && len(names) < 64; a++ {
						names = append(names, IPName(nets.IntToIP(a)))
					}
				}
				v.Ranges = append(v.Ranges, names)
			}
		}
	}
	return v
}

// ---- keyed locks owned by the scheduler ----

// KeyLocks implements keymutex.KeyMutex; acquisition is an interposable point and never blocks in the Go
// runtime: an operation parked in front of a held lock is simply not runnable.
type KeyLocks struct {
	w     *World
	kind  string // "lockpod" or "lockdp"
	mu    sync.Mutex
	owner map[string]int // key -> op id (0 = driver)
}

func (k *KeyLocks) LockKey(id string) {
	for {
		op := k.w.S.Gate(&Call{Name: k.kind, Args: map[string]interface{}{"key": k.abstract(id)}})
		k.mu.Lock()
		if _, held := k.owner[id]; !held {
			oid := 0
			if op != nil {
				oid = op.ID
			}
			k.owner[id] = oid
			k.mu.Unlock()
			return
		}
		k.mu.Unlock()
		if op == nil {
			panic("driver goroutine would block on " + k.kind + " " + id)
		}
		// stepped although the lock is held (attack schedule): stay in front of it
	}
}

func (k *KeyLocks) UnlockKey(id string) error {
	k.mu.Lock()
	delete(k.owner, id)
	k.mu.Unlock()
	return nil
}

func (k *KeyLocks) abstract(id string) interface{} {
	if k.kind == "lockpod" {
		return strings.TrimPrefix(id, NS+"_")
	}
	return ParseKeyRec(id)
}

// Held returns abstract key -> holder op id.
func (k *KeyLocks) Held() map[string]int {
	k.mu.Lock()
	defer k.mu.Unlock()
	out := map[string]int{}
	for id, o := range k.owner {
		if k.kind == "lockpod" {
			out[strings.TrimPrefix(id, NS+"_")] = o
		} else {
			out[id] = o
		}
	}
	return out
}

// IsHeld tells whether the (real) key is held.
func (k *KeyLocks) IsHeld(abstractKey interface{}) bool {
	k.mu.Lock()
	defer k.mu.Unlock()
	for id := range k.owner {
		if fmt.Sprint(k.abstract(id)) == fmt.Sprint(abstractKey) {
			return true
		}
	}
	return false
}

// ---- cloud provider ----

// Cloud records the provider's view: ip -> node.
type Cloud struct {
	w      *World
	mu     sync.Mutex
	Assign map[string]string
	Log    []map[string]interface{}
}

func (c *Cloud) AssignIP(in *rpc.AssignIPRequest) (*rpc.AssignIPReply, error) {
	ip := IPName(IPAddr(in.IPAddress))
	op := c.w.S.Gate(&Call{Name: "AssignIP", Args: map[string]interface{}{"node": in.NodeName, "ip": ip}})
	ok := !c.w.S.Fallible(op)
	c.mu.Lock()
	if ok {
		c.Assign[ip] = in.NodeName
	}
	c.Log = append(c.Log, map[string]interface{}{"call": "AssignIP", "node": in.NodeName, "ip": ip, "ok": ok})
	c.mu.Unlock()
	if op != nil {
		op.Last.Ret = map[string]interface{}{"ok": ok}
	}
	if !ok {
		return &rpc.AssignIPReply{Success: false, Msg: "injected"}, nil
	}
	return &rpc.AssignIPReply{Success: true}, nil
}

func (c *Cloud) UnAssignIP(in *rpc.UnAssignIPRequest) (*rpc.UnAssignIPReply, error) {
	ip := IPName(IPAddr(in.IPAddress))
	op := c.w.S.Gate(&Call{Name: "UnAssignIP", Args: map[string]interface{}{"node": in.NodeName, "ip": ip}})
	ok := !c.w.S.Fallible(op)
	c.mu.Lock()
	if ok && c.Assign[ip] == in.NodeName {
		// unassigning from a node the ip is not assigned to is a successful no-op at the provider
		delete(c.Assign, ip)
	}
	c.Log = append(c.Log, map[string]interface{}{"call": "UnAssignIP", "node": in.NodeName, "ip": ip, "ok": ok})
	c.mu.Unlock()
	if op != nil {
		op.Last.Ret = map[string]interface{}{"ok": ok}
	}
	if !ok {
		return &rpc.UnAssignIPReply{Success: false, Msg: "injected"}, nil
	}
	return &rpc.UnAssignIPReply{Success: true}, nil
}

// ---- the world ----

type PodEvent struct {
	Type string   `json:"type"` // add, upd, del
	Old  *PodView `json:"old,omitempty"`
	New  PodView  `json:"new"`
	old  *corev1.Pod
	new  *corev1.Pod
}

type Work struct {
	Pod   PodView `json:"pod"`
	Retry int     `json:"retry"`
	pod   *corev1.Pod
}

// World is everything around one galaxy-ipam process; the process itself (Plugin) can be crashed and restarted.
type World struct {
	S     *Sched
	Store *FipStore
	mu    sync.Mutex

	Specs map[string]PodSpec
	pods  map[string]*corev1.Pod // API truth
	uidN  int

	podIdx, stsIdx, dpIdx, poolIdx, crdIdx cache.Indexer

	Nodes     map[string]*corev1.Node // name -> node
	NodeOrder []string
	NodeSub   map[string]string // node -> subnet name
	Cfgs      []Config
	CfgCur    int // configuration currently in the config map

	Cloud   *Cloud
	CloudOn bool

	Pevq []PodEvent
	Work []Work
	Fev  []FevRec

	Alive    bool
	Plugin   *schedulerplugin.FloatingIPPlugin
	Inner    floatingip.IPAM
	PodLocks *KeyLocks
	DpLocks  *KeyLocks
	Inf      *FipInformerStub
	LoadedCf int // configuration the process has loaded
	ServedCf int // configuration the config map served at the last read
}

type FevRec struct {
	Type string `json:"type"`
	IP   string `json:"ip"`
	obj  *v1alpha1.FloatingIP
}

// Obj returns the FloatingIP object of the watch event.
func (f FevRec) Obj() *v1alpha1.FloatingIP { return f.obj }

func NewWorld(cfgs []Config, nodeSub map[string]string, cloudOn bool) *World {
	w := &World{S: NewSched(), Store: NewFipStore(), Specs: map[string]PodSpec{}, pods: map[string]*corev1.Pod{},
		Nodes: map[string]*corev1.Node{}, NodeSub: nodeSub, Cfgs: cfgs, CloudOn: cloudOn}
	idx := func() cache.Indexer {
		return cache.NewIndexer(cache.MetaNamespaceKeyFunc, cache.Indexers{cache.NamespaceIndex: cache.MetaNamespaceIndexFunc})
	}
	w.podIdx, w.stsIdx, w.dpIdx, w.poolIdx, w.crdIdx = idx(), idx(), idx(), idx(), idx()
	var names []string
	for n := range nodeSub {
		names = append(names, n)
	}
	sort.Strings(names)
	for i, n := range names {
		addr := NodeAddr(nodeSub[n], i+1)
		if nodeSub[n] == "" {
			addr = fmt.Sprintf("10.250.0.%d", 10+i)
		}
		w.Nodes[n] = &corev1.Node{ObjectMeta: metav1.ObjectMeta{Name: n},
			Status: corev1.NodeStatus{Addresses: []corev1.NodeAddress{{Type: corev1.NodeInternalIP, Address: addr}}}}
	}
	w.NodeOrder = names
	w.Cloud = &Cloud{w: w, Assign: map[string]string{}}
	w.Store.Hook = w.storeHook
	w.Store.After = func(err error) { w.S.NoteError(w.S.Current()) }
	w.Store.OnWatch = func(typ string, obj *v1alpha1.FloatingIP) {
		if _, lab := obj.Labels[constant.ReserveFIPLabel]; lab && w.Alive {
			w.Fev = append(w.Fev, FevRec{Type: typ, IP: IPName(IPAddr(obj.Name)), obj: obj})
		}
	}
	w.Store.PoolChanged = w.syncPoolLister
	return w
}

// storeHook numbers the store calls of the current segment; the j-th fails or cuts the process off.
func (w *World) storeHook(verb, name string) error {
	op := w.S.Current()
	if op == nil {
		return nil
	}
	if w.S.Fallible(op) {
		return ErrInjected
	}
	return nil
}

// nodeIndexer serves the (static) node objects through a lister (Preempt looks nodes up by name).
func (w *World) nodeIndexer() cache.Indexer {
	idx := cache.NewIndexer(cache.MetaNamespaceKeyFunc, cache.Indexers{})
	for _, n := range w.Nodes {
		_ = idx.Add(n.DeepCopy())
	}
	return idx
}

func (w *World) syncPoolLister() {
	for _, o := range w.poolIdx.List() {
		_ = w.poolIdx.Delete(o)
	}
	for _, p := range w.Store.RawPools() {
		p.Namespace = "kube-system"
		_ = w.poolIdx.Add(p)
	}
}

// StartProcess builds a fresh galaxy-ipam plugin instance over the same store, listers and cloud.
func (w *World) StartProcess() error {
	w.Inf = NewFipInformerStub()
	ctx := &ipamcontext.IPAMContext{
		Client:            w.kubeClient(),
		GalaxyClient:      w.Store.Client(),
		PodLister:         &gatedPodLister{w: w, l: corelisters.NewPodLister(w.podIdx)},
		StatefulSetLister: appslisters.NewStatefulSetLister(w.stsIdx),
		DeploymentLister:  appslisters.NewDeploymentLister(w.dpIdx),
		PoolLister:        galaxylisters.NewPoolLister(w.poolIdx),
		NodeLister:        corelisters.NewNodeLister(w.nodeIndexer()),
		FIPInformer:       w.Inf,
		ExtensionLister:   extlisters.NewCustomResourceDefinitionLister(w.crdIdx),
	}
	plugin, err := schedulerplugin.NewFloatingIPPlugin(schedulerplugin.Conf{}, ctx)
	if err != nil {
		return err
	}
	w.Inner = plugin.GetIpam()
	plugin.VerifWrapIPAM(func(in floatingip.IPAM) floatingip.IPAM { return &gatedIPAM{w: w, in: in} })
	w.PodLocks = &KeyLocks{w: w, kind: "lockpod", owner: map[string]int{}}
	w.DpLocks = &KeyLocks{w: w, kind: "lockdp", owner: map[string]int{}}
	plugin.VerifSetLocks(w.PodLocks, w.DpLocks)
	if w.CloudOn {
		plugin.VerifSetCloudProvider(w.Cloud)
	}
	w.Plugin = plugin
	w.Alive = true
	// Init: fetch the config map and configure the pool (driver goroutine: un-gated, atomic)
	ok, err := plugin.VerifReloadConfigMap()
	if err != nil || !ok {
		return fmt.Errorf("initial configuration failed: %v", err)
	}
	w.LoadedCf = w.CfgCur
	return nil
}

// ---- kube client ----

type kubeClient struct {
	*k8sfake.Clientset
	w *World
}

func (w *World) kubeClient() kubernetes.Interface {
	return &kubeClient{Clientset: k8sfake.NewSimpleClientset(), w: w}
}

func (k *kubeClient) CoreV1() corev1client.CoreV1Interface {
	return &coreV1{CoreV1Interface: k.Clientset.CoreV1(), w: k.w}
}

type coreV1 struct {
	corev1client.CoreV1Interface
	w *World
}

func (c *coreV1) Pods(ns string) corev1client.PodInterface {
	return &podsIface{PodInterface: c.CoreV1Interface.Pods(ns), w: c.w}
}
func (c *coreV1) Nodes() corev1client.NodeInterface {
	return &nodesIface{NodeInterface: c.CoreV1Interface.Nodes(), w: c.w}
}
func (c *coreV1) ConfigMaps(ns string) corev1client.ConfigMapInterface {
	return &cmIface{ConfigMapInterface: c.CoreV1Interface.ConfigMaps(ns), w: c.w}
}

type podsIface struct {
	corev1client.PodInterface
	w *World
}

func podRet(p *corev1.Pod, spec PodSpec) map[string]interface{} {
	if p == nil {
		return map[string]interface{}{"found": false, "err": ""}
	}
	v := ViewOf(p, spec)
	return map[string]interface{}{"found": true, "uid": v.UID, "phase": v.Phase, "err": ""}
}

func (p *podsIface) Get(ctx context.Context, name string, o metav1.GetOptions) (*corev1.Pod, error) {
	op := p.w.S.Gate(&Call{Name: "podget", Args: map[string]interface{}{"pod": name}})
	if p.w.S.Fallible(op) {
		if op != nil {
			op.Last.Ret = map[string]interface{}{"found": false, "err": "injected"}
		}
		return nil, apierrors.NewInternalError(errors.New("injected"))
	}
	p.w.mu.Lock()
	cur := p.w.pods[name]
	var cp *corev1.Pod
	if cur != nil {
		cp = cur.DeepCopy()
	}
	spec := p.w.Specs[name]
	p.w.mu.Unlock()
	if op != nil {
		op.Last.Ret = podRet(cp, spec)
	}
	if cp == nil {
		return nil, apierrors.NewNotFound(podGR, name)
	}
	return cp, nil
}

func (p *podsIface) Bind(ctx context.Context, b *corev1.Binding, o metav1.CreateOptions) error {
	ann, infos := []string{}, []map[string]interface{}{}
	if args, err := constant.UnmarshalCniArgs(b.Annotations[constant.ExtendedCNIArgsAnnotation]); err == nil && args != nil {
		for _, info := range args.Common.IPInfos {
			if info.IP != nil {
				ann = append(ann, IPName(info.IP.IP))
				bits, _ := info.IP.Mask.Size()
				infos = append(infos, map[string]interface{}{"vlan": int(info.Vlan), "mask": bits, "gw": info.Gateway.String()})
			}
		}
	}
	op := p.w.S.Gate(&Call{Name: "binding", Args: map[string]interface{}{"pod": b.Name, "node": b.Target.Name, "uid": string(b.UID), "ann": ann, "info": infos}})
	set := func(res string) {
		if op != nil {
			op.Last.Ret = map[string]interface{}{"res": res}
		}
	}
	if p.w.S.Fallible(op) {
		set("injected")
		return apierrors.NewInternalError(errors.New("injected"))
	}
	p.w.mu.Lock()
	defer p.w.mu.Unlock()
	cur := p.w.pods[b.Name]
	if cur == nil {
		set("notfound")
		return apierrors.NewNotFound(podGR, b.Name)
	}
	if b.UID != "" && cur.UID != b.UID {
		set("conflict")
		return apierrors.NewConflict(podGR, b.Name, fmt.Errorf("uid precondition failed"))
	}
	if cur.Spec.NodeName != "" {
		set("conflict")
		return apierrors.NewConflict(podGR, b.Name, fmt.Errorf("pod is already assigned to node %s", cur.Spec.NodeName))
	}
	old := cur.DeepCopy()
	cur.Spec.NodeName = b.Target.Name
	if cur.Annotations == nil {
		cur.Annotations = map[string]string{}
	}
	for k, v := range b.Annotations {
		cur.Annotations[k] = v
	}
	p.w.enqueue("upd", old, cur.DeepCopy())
	set("ok")
	return nil
}

type nodesIface struct {
	corev1client.NodeInterface
	w *World
}

// Get is called with the plugin's nodeSubnetLock held: not a park point, recorded as a read.
func (n *nodesIface) Get(ctx context.Context, name string, o metav1.GetOptions) (*corev1.Node, error) {
	nd := n.w.Nodes[name]
	n.w.S.Read(map[string]interface{}{"read": "nodeget", "node": name, "found": nd != nil})
	if nd == nil {
		return nil, apierrors.NewNotFound(schema.GroupResource{Resource: "nodes"}, name)
	}
	return nd.DeepCopy(), nil
}

type cmIface struct {
	corev1client.ConfigMapInterface
	w *World
}

func (c *cmIface) Get(ctx context.Context, name string, o metav1.GetOptions) (*corev1.ConfigMap, error) {
	op := c.w.S.Gate(&Call{Name: "cmget", Args: map[string]interface{}{}})
	if c.w.S.Fallible(op) {
		if op != nil {
			op.Last.Ret = map[string]interface{}{"ok": false}
		}
		return nil, apierrors.NewInternalError(errors.New("injected"))
	}
	if op != nil {
		op.Last.Ret = map[string]interface{}{"ok": true, "conf": c.w.CfgCur + 1}
	}
	c.w.ServedCf = c.w.CfgCur
	return &corev1.ConfigMap{ObjectMeta: metav1.ObjectMeta{Name: name, Namespace: "kube-system"},
		Data: map[string]string{"floatingips": c.w.Cfgs[c.w.CfgCur].JSON()}}, nil
}

// ---- gated pod lister ----

type gatedPodLister struct {
	w *World
	l corelisters.PodLister
}
