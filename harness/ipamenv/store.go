// Package ipamenv is the harness-owned environment around galaxy-ipam: an in-memory API server for
// FloatingIP/Pool/Pod/Node/ConfigMap objects with API-server semantics, listers the harness mutates
// (informer lag is a harness decision), a recording cloud provider, and a deterministic scheduler that
// parks operation goroutines at every interposable point.
package ipamenv

import (
	"context"
	"fmt"
	"sort"
	"sync"

	apierrors "k8s.io/apimachinery/pkg/api/errors"
	metav1 "k8s.io/apimachinery/pkg/apis/meta/v1"
	"k8s.io/apimachinery/pkg/runtime/schema"
	"tkestack.io/galaxy/pkg/ipam/apis/galaxy/v1alpha1"
	"tkestack.io/galaxy/pkg/ipam/client/clientset/versioned"
	gv1 "tkestack.io/galaxy/pkg/ipam/client/clientset/versioned/typed/galaxy/v1alpha1"
)

var fipGR = schema.GroupResource{Group: "galaxy.k8s.io", Resource: "floatingips"}
var poolGR = schema.GroupResource{Group: "galaxy.k8s.io", Resource: "pools"}

// StoreHook is consulted before every FloatingIP store call made through the client handed to the
// system under test. A non-nil error is returned to the caller instead of performing the call.
type StoreHook func(verb, name string) error

// FipStore is the persisted FloatingIP/Pool object store.
type FipStore struct {
	mu    sync.Mutex
	fips  map[string]*v1alpha1.FloatingIP
	pools map[string]*v1alpha1.Pool
	rv    int
	Hook  StoreHook // may be nil
	// After is told about every error a FloatingIP store call returned naturally (AlreadyExists, NotFound...).
	After func(err error)
	// AfterList runs after a List through the client computed its result and before it returns: whatever
	// it does happens between "list" and whatever the caller does next.
	AfterList func()
	// OnWatch is told about every create/delete of a FloatingIP object (whoever did it), as a watch would.
	OnWatch func(typ string, obj *v1alpha1.FloatingIP)
	// PoolChanged is called (outside the lock) after a pool object is written through the client.
	PoolChanged func()
}

func NewFipStore() *FipStore {
	return &FipStore{fips: map[string]*v1alpha1.FloatingIP{}, pools: map[string]*v1alpha1.Pool{}}
}

// ---- direct (harness/admin) access, no hook ----

func (s *FipStore) RawList() []*v1alpha1.FloatingIP {
	s.mu.Lock()
	defer s.mu.Unlock()
	var out []*v1alpha1.FloatingIP
	for _, f := range s.fips {
		out = append(out, f.DeepCopy())
	}
	sort.Slice(out, func(i, j int) bool { return out[i].Name < out[j].Name })
	return out
}

func (s *FipStore) RawGet(name string) *v1alpha1.FloatingIP {
	s.mu.Lock()
	defer s.mu.Unlock()
	if f, ok := s.fips[name]; ok {
		return f.DeepCopy()
	}
	return nil
}

func (s *FipStore) RawCreate(f *v1alpha1.FloatingIP) error {
	s.mu.Lock()
	defer s.mu.Unlock()
	if _, ok := s.fips[f.Name]; ok {
		return apierrors.NewAlreadyExists(fipGR, f.Name)
	}
	s.rv++
	c := f.DeepCopy()
	c.ResourceVersion = fmt.Sprint(s.rv)
	s.fips[f.Name] = c
	if s.OnWatch != nil {
		s.OnWatch("add", c.DeepCopy())
	}
	return nil
}

func (s *FipStore) RawDelete(name string) error {
	s.mu.Lock()
	defer s.mu.Unlock()
	old, ok := s.fips[name]
	if !ok {
		return apierrors.NewNotFound(fipGR, name)
	}
	delete(s.fips, name)
	if s.OnWatch != nil {
		s.OnWatch("del", old.DeepCopy())
	}
	return nil
}

func (s *FipStore) RawPools() []*v1alpha1.Pool {
	s.mu.Lock()
	defer s.mu.Unlock()
	var out []*v1alpha1.Pool
	for _, p := range s.pools {
		out = append(out, p.DeepCopy())
	}
	sort.Slice(out, func(i, j int) bool { return out[i].Name < out[j].Name })
	return out
}

func (s *FipStore) RawSetPool(p *v1alpha1.Pool) {
	s.mu.Lock()
	defer s.mu.Unlock()
	s.pools[p.Name] = p.DeepCopy()
}

func (s *FipStore) RawDeletePool(name string) {
	s.mu.Lock()
	defer s.mu.Unlock()
	delete(s.pools, name)
}

// ---- client handed to the system under test ----

type fipClientset struct {
	versioned.Interface // nil: anything else panics, which we want to know about
	s                   *FipStore
}

// Client returns a clientset whose FloatingIPs()/Pools() operate on this store through the hook.
func (s *FipStore) Client() versioned.Interface { return &fipClientset{s: s} }

func (c *fipClientset) GalaxyV1alpha1() gv1.GalaxyV1alpha1Interface { return &galaxyV1{s: c.s} }

type galaxyV1 struct {
	gv1.GalaxyV1alpha1Interface
	s *FipStore
}

func (g *galaxyV1) FloatingIPs() gv1.FloatingIPInterface { return &fipIface{s: g.s} }
func (g *galaxyV1) Pools(ns string) gv1.PoolInterface    { return &poolIface{s: g.s} }

type fipIface struct {
	gv1.FloatingIPInterface
	s *FipStore
}

func (f *fipIface) after(err error) error {
	if err != nil && f.s.After != nil {
		f.s.After(err)
	}
	return err
}

func (f *fipIface) hook(verb, name string) error {
	if f.s.Hook != nil {
		return f.s.Hook(verb, name)
	}
	return nil
}

func (f *fipIface) Create(ctx context.Context, obj *v1alpha1.FloatingIP, o metav1.CreateOptions) (*v1alpha1.FloatingIP, error) {
	if err := f.hook("create", obj.Name); err != nil {
		return nil, err
	}
	if err := f.s.RawCreate(obj); err != nil {
		return nil, f.after(err)
	}
	return f.s.RawGet(obj.Name), nil
}

func (f *fipIface) Update(ctx context.Context, obj *v1alpha1.FloatingIP, o metav1.UpdateOptions) (*v1alpha1.FloatingIP, error) {
	if err := f.hook("update", obj.Name); err != nil {
		return nil, err
	}
	f.s.mu.Lock()
	defer f.s.mu.Unlock()
	cur, ok := f.s.fips[obj.Name]
	if !ok {
		return nil, f.after(apierrors.NewNotFound(fipGR, obj.Name))
	}
	if obj.ResourceVersion != "" && obj.ResourceVersion != cur.ResourceVersion {
		return nil, f.after(apierrors.NewConflict(fipGR, obj.Name, fmt.Errorf("object was modified")))
	}
	f.s.rv++
	c := obj.DeepCopy()
	c.ResourceVersion = fmt.Sprint(f.s.rv)
	f.s.fips[obj.Name] = c
	return c.DeepCopy(), nil
}

func (f *fipIface) Delete(ctx context.Context, name string, o metav1.DeleteOptions) error {
	if err := f.hook("delete", name); err != nil {
		return err
	}
	return f.after(f.s.RawDelete(name))
}

func (f *fipIface) Get(ctx context.Context, name string, o metav1.GetOptions) (*v1alpha1.FloatingIP, error) {
	if err := f.hook("get", name); err != nil {
		return nil, err
	}
	if obj := f.s.RawGet(name); obj != nil {
		return obj, nil
	}
	return nil, f.after(apierrors.NewNotFound(fipGR, name))
}

func (f *fipIface) List(ctx context.Context, o metav1.ListOptions) (*v1alpha1.FloatingIPList, error) {
	if err := f.hook("list", ""); err != nil {
		return nil, err
	}
	l := &v1alpha1.FloatingIPList{}
	for _, obj := range f.s.RawList() {
		l.Items = append(l.Items, *obj)
	}
	if f.s.AfterList != nil {
		f.s.AfterList()
	}
	return l, nil
}

type poolIface struct {
	gv1.PoolInterface
	s *FipStore
}

func (p *poolIface) Get(ctx context.Context, name string, o metav1.GetOptions) (*v1alpha1.Pool, error) {
	p.s.mu.Lock()
	defer p.s.mu.Unlock()
	if obj, ok := p.s.pools[name]; ok {
		return obj.DeepCopy(), nil
	}
	return nil, apierrors.NewNotFound(poolGR, name)
}

func (p *poolIface) Create(ctx context.Context, obj *v1alpha1.Pool, o metav1.CreateOptions) (*v1alpha1.Pool, error) {
	p.s.mu.Lock()
	if _, ok := p.s.pools[obj.Name]; ok {
		p.s.mu.Unlock()
		return nil, apierrors.NewAlreadyExists(poolGR, obj.Name)
	}
	p.s.pools[obj.Name] = obj.DeepCopy()
	p.s.mu.Unlock()
	if p.s.PoolChanged != nil {
		p.s.PoolChanged()
	}
	return obj.DeepCopy(), nil
}

func (p *poolIface) Update(ctx context.Context, obj *v1alpha1.Pool, o metav1.UpdateOptions) (*v1alpha1.Pool, error) {
	p.s.mu.Lock()
	if _, ok := p.s.pools[obj.Name]; !ok {
		p.s.mu.Unlock()
		return nil, apierrors.NewNotFound(poolGR, obj.Name)
	}
	p.s.pools[obj.Name] = obj.DeepCopy()
	p.s.mu.Unlock()
	if p.s.PoolChanged != nil {
		p.s.PoolChanged()
	}
	return obj.DeepCopy(), nil
}

func (p *poolIface) Delete(ctx context.Context, name string, o metav1.DeleteOptions) error {
	p.s.mu.Lock()
	if _, ok := p.s.pools[name]; !ok {
		p.s.mu.Unlock()
		return apierrors.NewNotFound(poolGR, name)
	}
	delete(p.s.pools, name)
	p.s.mu.Unlock()
	if p.s.PoolChanged != nil {
		p.s.PoolChanged()
	}
	return nil
}
