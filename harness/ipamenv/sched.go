package ipamenv

import (
	"fmt"
	"sync"
	"time"
)

// Call describes one interposable call of an operation: its name, abstract arguments and (once it has been
// executed) its abstract result.
type Call struct {
	Name string                 `json:"call"`
	Args map[string]interface{} `json:"args"`
	Ret  map[string]interface{} `json:"ret,omitempty"`
	// Calls is the number of store calls the call issued (IPAM methods).
	Calls int `json:"calls"`
}

// Op is one operation of the system under test running in its own goroutine under the deterministic scheduler.
type Op struct {
	ID     int
	Type   string
	goid   int64
	resume chan struct{}
	// state, owned by the scheduler lock
	Pending *Call // the call the goroutine is parked in front of (nil when done)
	Last    *Call // the call executed in the last segment
	Done    bool
	Result  map[string]interface{}
	Dead    bool // abandoned by a crash
	// fault to inject in the next segment: fail the k-th fallible call of the segment (0 = none)
	FaultAt int
	nCalls  int
	erred   bool
	// crash: cut the process off when the k-th store call of the next segment is about to be issued
	CrashAt int
	// Reads are the un-gated lister reads of the last segment
	Reads []map[string]interface{}
}

type parkMsg struct {
	op *Op
}

// Sched parks every operation goroutine at each interposable point and runs exactly one of them at a time.
type Sched struct {
	mu     sync.Mutex
	ops    map[int64]*Op
	byID   map[int]*Op
	nextID int
	parked chan parkMsg
	// Watchdog for one segment.
	Watchdog time.Duration
}

func NewSched() *Sched {
	return &Sched{ops: map[int64]*Op{}, byID: map[int]*Op{}, parked: make(chan parkMsg, 64), Watchdog: 30 * time.Second}
}

// Current returns the operation the calling goroutine belongs to (nil for the driver's own goroutine).
func (s *Sched) Current() *Op {
	id := Goid()
	s.mu.Lock()
	defer s.mu.Unlock()
	return s.ops[id]
}

// ErrHang is returned when a released operation neither parked nor finished within the watchdog.
type ErrHang struct{ Op *Op }

func (e ErrHang) Error() string {
	return fmt.Sprintf("operation %d (%s) did not reach its next interposable point", e.Op.ID, e.Op.Type)
}

// crashed is panicked inside an operation goroutine to abandon it.
type crashed struct{}

// Start launches fn as a new operation; it returns once the operation is parked at its first interposable
// point or has finished.
func (s *Sched) Start(typ string, fn func() map[string]interface{}) (*Op, error) {
	s.mu.Lock()
	s.nextID++
	op := &Op{ID: s.nextID, Type: typ, resume: make(chan struct{})}
	s.byID[op.ID] = op
	s.mu.Unlock()
	ready := make(chan struct{})
	go func() {
		op.goid = Goid()
		s.mu.Lock()
		s.ops[op.goid] = op
		s.mu.Unlock()
		close(ready)
		defer func() {
			if v := recover(); v != nil {
				if _, ok := v.(crashed); ok {
					return // abandoned
				}
				if IsCrash(v) {
					s.mu.Lock()
					op.Dead = true
					op.Result = map[string]interface{}{"crashed": true}
					s.mu.Unlock()
					s.parked <- parkMsg{op}
					return
				}
				s.mu.Lock()
				op.Done = true
				op.Pending = nil
				op.Result = map[string]interface{}{"panic": fmt.Sprint(v)}
				s.mu.Unlock()
				s.parked <- parkMsg{op}
			}
		}()
		res := fn()
		s.mu.Lock()
		op.Done = true
		op.Pending = nil
		op.Result = res
		s.mu.Unlock()
		s.parked <- parkMsg{op}
	}()
	<-ready
	return op, s.wait(op)
}

func (s *Sched) wait(op *Op) error {
	t := time.NewTimer(s.Watchdog)
	defer t.Stop()
	for {
		select {
		case m := <-s.parked:
			if m.op == op {
				return nil
			}
			// a park message of another operation (possible only if something ran un-scheduled): keep it parked
		case <-t.C:
			return ErrHang{op}
		}
	}
}

// Step releases a parked operation and waits until it parks again or finishes.
func (s *Sched) Step(op *Op, faultAt, crashAt int) error {
	s.mu.Lock()
	if op.Done || op.Dead {
		s.mu.Unlock()
		return fmt.Errorf("step of finished operation %d", op.ID)
	}
	op.FaultAt, op.CrashAt, op.nCalls, op.erred = faultAt, crashAt, 0, false
	op.Reads = nil
	s.mu.Unlock()
	op.resume <- struct{}{}
	return s.wait(op)
}

// Gate is called by every interposed call site before the call is made. In an operation goroutine it
// publishes the pending call and parks until the driver steps the operation; elsewhere it returns at once.
func (s *Sched) Gate(c *Call) *Op {
	op := s.Current()
	if op == nil {
		return nil
	}
	s.mu.Lock()
	if op.Dead {
		s.mu.Unlock()
		panic(crashed{})
	}
	op.Pending = c
	s.mu.Unlock()
	s.parked <- parkMsg{op}
	<-op.resume
	s.mu.Lock()
	dead := op.Dead
	op.Pending = nil
	op.Last = c
	s.mu.Unlock()
	if dead {
		panic(crashed{})
	}
	return op
}

// Fallible numbers a fallible call (API-server or cloud call, or a store call inside an IPAM method) of the
// current segment and reports whether it must fail (single fault per segment) or cut the process off.
func (s *Sched) Fallible(op *Op) (fail bool) {
	if op == nil {
		return false
	}
	s.mu.Lock()
	defer s.mu.Unlock()
	op.nCalls++
	if op.CrashAt != 0 && op.nCalls == op.CrashAt {
		panic(crashSignal{})
	}
	if op.FaultAt != 0 && op.nCalls == op.FaultAt && !op.erred {
		op.erred = true
		return true
	}
	return false
}

// NoteError records a naturally failed fallible call (single-fault rule).
func (s *Sched) NoteError(op *Op) {
	if op == nil {
		return
	}
	s.mu.Lock()
	op.erred = true
	s.mu.Unlock()
}

// NCalls returns the number of fallible calls issued in the current segment.
func (s *Sched) NCalls(op *Op) int {
	s.mu.Lock()
	defer s.mu.Unlock()
	return op.nCalls
}

// Read records an un-gated lister read of the current segment.
func (s *Sched) Read(r map[string]interface{}) {
	op := s.Current()
	if op == nil {
		return
	}
	s.mu.Lock()
	op.Reads = append(op.Reads, r)
	s.mu.Unlock()
}

// KillAll abandons every live operation (crash of the process): parked goroutines stay parked forever.
func (s *Sched) KillAll() {
	s.mu.Lock()
	defer s.mu.Unlock()
	for _, op := range s.byID {
		if !op.Done {
			op.Dead = true
		}
	}
}

// Live returns the operations that are parked (not done, not dead), by id order.
func (s *Sched) Live() []*Op {
	s.mu.Lock()
	defer s.mu.Unlock()
	var out []*Op
	for id := 1; id <= s.nextID; id++ {
		if op := s.byID[id]; op != nil && !op.Done && !op.Dead {
			out = append(out, op)
		}
	}
	return out
}
