package ipamenv

import (
	"encoding/json"
	"errors"
	"fmt"
	"sort"
	"sync"
	"time"

	metav1 "k8s.io/apimachinery/pkg/apis/meta/v1"
	"k8s.io/client-go/tools/cache"
	"tkestack.io/galaxy/pkg/api/galaxy/constant"
	"tkestack.io/galaxy/pkg/ipam/apis/galaxy/v1alpha1"
	ginformer "tkestack.io/galaxy/pkg/ipam/client/informers/externalversions/galaxy/v1alpha1"
	"tkestack.io/galaxy/pkg/ipam/floatingip"
)

// ---- stub FloatingIP informer: captures the handlers so that watch events are delivered by the driver ----

type stubSharedInformer struct {
	cache.SharedIndexInformer // nil
	mu                        sync.Mutex
	handlers                  []cache.ResourceEventHandler
}

func (s *stubSharedInformer) AddEventHandler(h cache.ResourceEventHandler) {
	s.mu.Lock()
	defer s.mu.Unlock()
	s.handlers = append(s.handlers, h)
}

// FipInformerStub implements FloatingIPInformer for NewCrdIPAM.
type FipInformerStub struct {
	ginformer.FloatingIPInformer // nil
	inf                          *stubSharedInformer
}

func NewFipInformerStub() *FipInformerStub {
	return &FipInformerStub{inf: &stubSharedInformer{}}
}
func (f *FipInformerStub) Informer() cache.SharedIndexInformer { return f.inf }

// DeliverAdd / DeliverDelete hand one watch event to every registered handler.
func (f *FipInformerStub) DeliverAdd(obj *v1alpha1.FloatingIP) {
	for _, h := range f.inf.handlers {
		h.OnAdd(obj)
	}
}
func (f *FipInformerStub) DeliverDelete(obj *v1alpha1.FloatingIP) {
	for _, h := range f.inf.handlers {
		h.OnDelete(obj)
	}
}

// ---- projection of the IPAM's memory and of the store ----

// MemRec is the abstract in-memory record of one IP.
type MemRec struct {
	Key    KeyRec `json:"key"`
	Policy int    `json:"policy"`
	UID    string `json:"uid"`
	Node   string `json:"node"`
	Lab    bool   `json:"lab"`
	Ts     int    `json:"ts"`
	pool   string
	at     time.Time
}

// ProjectMem reads the whole table through the public API (ByPrefix("")).
func ProjectMem(ipam floatingip.IPAM) (map[string]MemRec, map[string]string, error) {
	all, err := ipam.ByPrefix("")
	if err != nil {
		return nil, nil, err
	}
	out := map[string]MemRec{}
	poolOf := map[string]string{}
	for _, f := range all {
		name := IPName(f.IP)
		if _, dup := out[name]; dup {
			return nil, nil, fmt.Errorf("ip %s appears twice in the IPAM tables", name)
		}
		_, lab := f.Labels[constant.ReserveFIPLabel]
		r := MemRec{Key: ParseKeyRec(f.Key), Policy: int(f.Policy), UID: f.PodUid, Node: f.NodeName, Lab: lab, at: f.UpdatedAt}
		if f.Key == "" {
			r.at = time.Time{}
		}
		out[name] = r
		poolOf[name] = PoolIDByVlan(f.IPInfo.Vlan)
	}
	rankTimes(out)
	return out, poolOf, nil
}

func rankTimes(m map[string]MemRec) {
	var ts []time.Time
	for _, r := range m {
		if !r.at.IsZero() {
			ts = append(ts, r.at)
		}
	}
	sort.Slice(ts, func(i, j int) bool { return ts[i].Before(ts[j]) })
	for k, r := range m {
		if r.at.IsZero() {
			continue
		}
		rank := 0
		var prev time.Time
		for _, t := range ts {
			if !t.Equal(prev) {
				rank++
				prev = t
			}
			if t.Equal(r.at) {
				break
			}
		}
		r.Ts = rank
		m[k] = r
	}
}

// StoreRec is the abstract persisted record of one IP.
type StoreRec struct {
	Key    KeyRec `json:"key"`
	Policy int    `json:"policy"`
	UID    string `json:"uid"`
	Node   string `json:"node"`
	Lab    bool   `json:"lab"`
}

func ProjectStore(s *FipStore) map[string]StoreRec {
	out := map[string]StoreRec{}
	for _, f := range s.RawList() {
		var attr floatingip.Attr
		if f.Spec.Attribute != "" {
			_ = json.Unmarshal([]byte(f.Spec.Attribute), &attr)
		}
		_, lab := f.Labels[constant.ReserveFIPLabel]
		out[IPName(IPAddr(f.Name))] = StoreRec{Key: ParseKeyRec(f.Spec.Key), Policy: int(f.Spec.Policy), UID: attr.Uid, Node: attr.NodeName, Lab: lab}
	}
	return out
}

// AdminFip builds the labelled object an administrator creates to reserve an IP.
func AdminFip(ipName string, key string) *v1alpha1.FloatingIP {
	return &v1alpha1.FloatingIP{
		TypeMeta:   metav1.TypeMeta{Kind: constant.ResourceKind, APIVersion: constant.ApiVersion},
		ObjectMeta: metav1.ObjectMeta{Name: IPAddr(ipName).String(), Labels: map[string]string{constant.ReserveFIPLabel: ""}},
		Spec:       v1alpha1.FloatingIPSpec{Key: key, Policy: constant.ReleasePolicyNever, UpdateTime: metav1.NewTime(time.Now())},
	}
}

// ---- fault injection for store calls ----

// ErrInjected is the error returned by an injected store fault.
var ErrInjected = errors.New("injected store failure")

// crashSignal is panicked by the store hook to cut a method off at a store call.
type crashSignal struct{}

// Injector numbers the store calls of the current IPAM method call and fails or cuts off one of them.
type Injector struct {
	mu       sync.Mutex
	calls    int
	failAt   int  // 0 = none
	crashAt  int  // 0 = none: panic(crashSignal) when call number crashAt is about to be issued
	erred    bool // an error was already returned in this operation: single-fault rule
	Injected bool
	// Window, if set, runs when the named verb is about to be issued (before the call).
	WindowVerb string
	Window     func()
}

func (in *Injector) Reset(failAt, crashAt int) {
	in.mu.Lock()
	defer in.mu.Unlock()
	in.calls, in.failAt, in.crashAt, in.erred, in.Injected = 0, failAt, crashAt, false, false
	in.WindowVerb, in.Window = "", nil
}

func (in *Injector) Calls() int {
	in.mu.Lock()
	defer in.mu.Unlock()
	return in.calls
}

// NoteError records that a store call returned an error naturally.
func (in *Injector) NoteError() {
	in.mu.Lock()
	in.erred = true
	in.mu.Unlock()
}

// Hook is installed as FipStore.Hook.
func (in *Injector) Hook(verb, name string) error {
	in.mu.Lock()
	w := in.Window
	if w != nil && verb == in.WindowVerb {
		in.Window = nil
	} else {
		w = nil
	}
	in.mu.Unlock()
	if w != nil {
		w()
	}
	in.mu.Lock()
	defer in.mu.Unlock()
	in.calls++
	if in.crashAt != 0 && in.calls == in.crashAt {
		panic(crashSignal{})
	}
	if in.failAt != 0 && in.calls == in.failAt && !in.erred {
		in.erred, in.Injected = true, true
		return ErrInjected
	}
	return nil
}

// IsCrash reports whether a recovered panic value is the crash signal.
func IsCrash(v interface{}) bool {
	_, ok := v.(crashSignal)
	return ok
}
