package ipamenv

import (
	"fmt"
	"sort"

	appsv1 "k8s.io/api/apps/v1"
	corev1 "k8s.io/api/core/v1"
	apierrors "k8s.io/apimachinery/pkg/api/errors"
	metav1 "k8s.io/apimachinery/pkg/apis/meta/v1"
	"k8s.io/apimachinery/pkg/labels"
	corelisters "k8s.io/client-go/listers/core/v1"
)

// List is an interposable point of the periodic pod-ip sync only (syncPodIPsIntoDB lists once, without a lock, and then works
// through the snapshot); the other callers use it inside one segment.
func (g *gatedPodLister) List(sel labels.Selector) ([]*corev1.Pod, error) {
	cur := g.w.S.Current()
	if cur == nil || cur.Type != "syncall" {
		return g.l.List(sel)
	}
	op := g.w.S.Gate(&Call{Name: "podlistall", Args: map[string]interface{}{}})
	pods, err := g.l.List(sel)
	if op != nil {
		names := []string{}
		for _, p := range pods {
			names = append(names, p.Name)
		}
		op.Last.Ret = map[string]interface{}{"names": names}
	}
	return pods, err
}
func (g *gatedPodLister) Pods(ns string) corelisters.PodNamespaceLister {
	return &gatedPodNsLister{w: g.w, l: g.l.Pods(ns)}
}

type gatedPodNsLister struct {
	w *World
	l corelisters.PodNamespaceLister
}

func (g *gatedPodNsLister) List(sel labels.Selector) ([]*corev1.Pod, error) { return g.l.List(sel) }
func (g *gatedPodNsLister) Get(name string) (*corev1.Pod, error) {
	op := g.w.S.Gate(&Call{Name: "podlist", Args: map[string]interface{}{"pod": name}})
	p, err := g.l.Get(name)
	if op != nil {
		if err != nil {
			op.Last.Ret = podRet(nil, PodSpec{})
		} else {
			g.w.mu.Lock()
			spec := g.w.Specs[name]
			g.w.mu.Unlock()
			op.Last.Ret = podRet(p, spec)
		}
	}
	return p, err
}

// ---- environment actions (driver goroutine) ----

func (w *World) enqueue(typ string, old, new *corev1.Pod) {
	spec := w.Specs[new.Name]
	e := PodEvent{Type: typ, New: ViewOf(new, spec), new: new, old: old}
	if old != nil {
		v := ViewOf(old, spec)
		e.Old = &v
	}
	w.Pevq = append(w.Pevq, e)
}

// CreatePod creates a fresh incarnation (new UID) of a pod identity.
func (w *World) CreatePod(spec PodSpec) (PodView, error) {
	w.mu.Lock()
	defer w.mu.Unlock()
	if _, ok := w.pods[spec.Name]; ok {
		return PodView{}, apierrors.NewAlreadyExists(podGR, spec.Name)
	}
	w.uidN++
	p := BuildPod(spec, fmt.Sprintf("u%d", w.uidN))
	w.Specs[spec.Name] = spec
	w.pods[spec.Name] = p
	w.enqueue("add", nil, p.DeepCopy())
	return ViewOf(p, spec), nil
}

func (w *World) DeletePod(name string) bool {
	w.mu.Lock()
	defer w.mu.Unlock()
	p, ok := w.pods[name]
	if !ok {
		return false
	}
	delete(w.pods, name)
	w.enqueue("del", nil, p.DeepCopy())
	return true
}

// SetPhase moves a pod to Running (kubelet) or Succeeded (finished).
func (w *World) SetPhase(name string, phase corev1.PodPhase) bool {
	w.mu.Lock()
	defer w.mu.Unlock()
	p, ok := w.pods[name]
	if !ok || p.Status.Phase == phase {
		return false
	}
	old := p.DeepCopy()
	p.Status.Phase = phase
	w.enqueue("upd", old, p.DeepCopy())
	return true
}

// TruthPod returns a copy of the API object.
func (w *World) TruthPod(name string) *corev1.Pod {
	w.mu.Lock()
	defer w.mu.Unlock()
	if p, ok := w.pods[name]; ok {
		return p.DeepCopy()
	}
	return nil
}

func (w *World) SetSts(app string, replicas int32, exists bool) {
	key := NS + "/" + app
	if !exists {
		if o, ok, _ := w.stsIdx.GetByKey(key); ok {
			_ = w.stsIdx.Delete(o)
		}
		return
	}
	_ = w.stsIdx.Add(&appsv1.StatefulSet{ObjectMeta: metav1.ObjectMeta{Name: app, Namespace: NS}, Spec: appsv1.StatefulSetSpec{Replicas: &replicas}})
}

func (w *World) SetDp(app string, replicas int32, exists bool) {
	key := NS + "/" + app
	if !exists {
		if o, ok, _ := w.dpIdx.GetByKey(key); ok {
			_ = w.dpIdx.Delete(o)
		}
		return
	}
	_ = w.dpIdx.Add(&appsv1.Deployment{ObjectMeta: metav1.ObjectMeta{Name: app, Namespace: NS}, Spec: appsv1.DeploymentSpec{Replicas: &replicas}})
}

// Workloads renders the abstract workload tables.
func (w *World) Workloads() (sts, dp map[string]int, pools map[string]map[string]interface{}) {
	sts, dp, pools = map[string]int{}, map[string]int{}, map[string]map[string]interface{}{}
	for _, o := range w.stsIdx.List() {
		s := o.(*appsv1.StatefulSet)
		sts[s.Name] = int(*s.Spec.Replicas)
	}
	for _, o := range w.dpIdx.List() {
		d := o.(*appsv1.Deployment)
		dp[d.Name] = int(*d.Spec.Replicas)
	}
	for _, p := range w.Store.RawPools() {
		pools[p.Name] = map[string]interface{}{"size": p.Size, "prealloc": p.PreAllocateIP}
	}
	return
}

// DeliverPodEvent hands the oldest undelivered pod event to the informer cache and returns the handler call
// the plugin must now run (as an operation), or nil.
func (w *World) DeliverPodEvent() (*PodEvent, bool) {
	if len(w.Pevq) == 0 {
		return nil, false
	}
	e := w.Pevq[0]
	w.Pevq = w.Pevq[1:]
	switch e.Type {
	case "add", "upd":
		_ = w.podIdx.Add(e.new.DeepCopy())
	case "del":
		// a delete event removes the cached object only if it is that incarnation
		if o, ok, _ := w.podIdx.GetByKey(NS + "/" + e.new.Name); ok && o.(*corev1.Pod).UID == e.new.UID {
			_ = w.podIdx.Delete(o)
		}
	}
	return &e, true
}

// DrainWork moves the plugin's queued release events into the world's work queue.
func (w *World) DrainWork() {
	if !w.Alive {
		return
	}
	for _, p := range w.Plugin.VerifDrainEvents() {
		w.Work = append(w.Work, Work{Pod: ViewOf(p, w.specOf(p)), pod: p})
	}
}

func (w *World) specOf(p *corev1.Pod) PodSpec {
	w.mu.Lock()
	defer w.mu.Unlock()
	return w.Specs[p.Name]
}

// ListerPods renders the informer cache.
func (w *World) ListerPods() map[string]PodView {
	out := map[string]PodView{}
	for _, o := range w.podIdx.List() {
		p := o.(*corev1.Pod)
		out[p.Name] = ViewOf(p, w.specOf(p))
	}
	return out
}

func (w *World) TruthPods() map[string]PodView {
	w.mu.Lock()
	defer w.mu.Unlock()
	out := map[string]PodView{}
	for n, p := range w.pods {
		out[n] = ViewOf(p, w.Specs[n])
	}
	return out
}

// Crash abandons the process: every live operation is dead, queued events and memory are gone.
func (w *World) Crash() {
	w.S.KillAll()
	w.Alive = false
	w.Work = nil
	w.Fev = nil
}

// Restart starts a new process; the informer re-lists: the cache equals the API truth and no event is pending.
func (w *World) Restart() error {
	for _, o := range w.podIdx.List() {
		_ = w.podIdx.Delete(o)
	}
	w.mu.Lock()
	for _, p := range w.pods {
		_ = w.podIdx.Add(p.DeepCopy())
	}
	w.mu.Unlock()
	w.Pevq = nil
	return w.StartProcess()
}

// SortedNodes returns the real node objects of the given names.
func (w *World) NodeObjs(names []string) []corev1.Node {
	var out []corev1.Node
	for _, n := range names {
		out = append(out, *w.Nodes[n].DeepCopy())
	}
	return out
}

func sortedKeys(m map[string]int) []string {
	var out []string
	for k := range m {
		out = append(out, k)
	}
	sort.Strings(out)
	return out
}

// PodObj returns the pod object of a queued release event.
func (wk Work) PodObj() *corev1.Pod { return wk.pod }

func (e PodEvent) OldObj() *corev1.Pod { return e.old }
func (e PodEvent) NewObj() *corev1.Pod { return e.new }
