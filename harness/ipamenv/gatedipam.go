package ipamenv

import (
	"net"
	"sort"

	"github.com/prometheus/client_golang/prometheus"
	"k8s.io/apimachinery/pkg/util/sets"
	"tkestack.io/galaxy/pkg/ipam/floatingip"
	"tkestack.io/galaxy/pkg/utils/nets"
)

// gatedIPAM wraps the plugin's IPAM: every method is an interposable point (call/return event, gate).
type gatedIPAM struct {
	w  *World
	in floatingip.IPAM
}

type M = map[string]interface{}

func attrM(a floatingip.Attr) M { return M{"policy": int(a.Policy), "uid": a.Uid, "node": a.NodeName} }

func rangesM(rr [][]nets.IPRange) [][]string {
	out := [][]string{}
	for _, ranges := range rr {
		var names []string
		for _, r := range ranges {
			for i := nets.IPToInt(r.First); i <= nets.IPToInt(r.Last) && i >= nets.IPToInt(r.First); i++ {
				names = append(names, IPName(nets.IntToIP(i)))
				if len(names) > 64 {
					break
				}
			}
		}
		if names == nil {
			names = []string{}
		}
		out = append(out, names)
	}
	return out
}

func errM(err error) M {
	if err != nil {
		return M{"ok": false, "err": err.Error()}
	}
	return M{"ok": true, "err": ""}
}

func (g *gatedIPAM) gate(name string, args M) *Op {
	return g.w.S.Gate(&Call{Name: name, Args: args})
}

func (g *gatedIPAM) done(op *Op, ret M) {
	if op != nil {
		op.Last.Ret = ret
		op.Last.Calls = g.w.S.NCalls(op)
	}
}

func infoIPs(infos []*floatingip.FloatingIPInfo) []string {
	out := []string{}
	for _, i := range infos {
		if i == nil {
			out = append(out, "none")
		} else {
			out = append(out, IPName(i.IP))
		}
	}
	return out
}

func (g *gatedIPAM) ConfigurePool(p []*floatingip.FloatingIPPool) error {
	op := g.gate("ConfigurePool", M{})
	err := g.in.ConfigurePool(p)
	g.done(op, errM(err))
	return err
}

func (g *gatedIPAM) ReleaseIPs(m map[string]string) (map[string]string, map[string]string, error) {
	want := M{}
	for ip, k := range m {
		want[IPName(IPAddr(ip))] = ParseKeyRec(k)
	}
	op := g.gate("ReleaseIPs", M{"want": want})
	a, b, err := g.in.ReleaseIPs(m)
	g.done(op, errM(err))
	return a, b, err
}

func (g *gatedIPAM) AllocateSpecificIP(key string, ip net.IP, attr floatingip.Attr) error {
	op := g.gate("AllocateSpecificIP", M{"key": ParseKeyRec(key), "ip": IPName(ip), "attr": attrM(attr)})
	err := g.in.AllocateSpecificIP(key, ip, attr)
	g.done(op, errM(err))
	return err
}

func (g *gatedIPAM) AllocateInSubnet(key string, sn *net.IPNet, attr floatingip.Attr) (net.IP, error) {
	op := g.gate("AllocateInSubnet", M{"key": ParseKeyRec(key), "subnet": SubnetName(sn.String()), "attr": attrM(attr)})
	ip, err := g.in.AllocateInSubnet(key, sn, attr)
	r := errM(err)
	r["ips"] = []string{}
	if err == nil {
		r["ips"] = []string{IPName(ip)}
	}
	g.done(op, r)
	return ip, err
}

func (g *gatedIPAM) AllocateInSubnetsAndIPRange(key string, sn *net.IPNet, rr [][]nets.IPRange, attr floatingip.Attr) ([]net.IP, error) {
	op := g.gate("AllocateMulti", M{"key": ParseKeyRec(key), "subnet": SubnetName(sn.String()), "ranges": rangesM(rr), "attr": attrM(attr)})
	ips, err := g.in.AllocateInSubnetsAndIPRange(key, sn, rr, attr)
	r := errM(err)
	names := []string{}
	for _, ip := range ips {
		names = append(names, IPName(ip))
	}
	r["ips"] = names
	g.done(op, r)
	return ips, err
}

func (g *gatedIPAM) AllocateInSubnetWithKey(oldK, newK, subnet string, attr floatingip.Attr) error {
	op := g.gate("AllocateInSubnetWithKey", M{"oldK": ParseKeyRec(oldK), "newK": ParseKeyRec(newK), "subnet": SubnetName(subnet), "attr": attrM(attr)})
	err := g.in.AllocateInSubnetWithKey(oldK, newK, subnet, attr)
	g.done(op, errM(err))
	return err
}

func (g *gatedIPAM) ReserveIP(oldK, newK string, attr floatingip.Attr) (bool, error) {
	op := g.gate("ReserveIP", M{"oldK": ParseKeyRec(oldK), "newK": ParseKeyRec(newK), "attr": attrM(attr)})
	res, err := g.in.ReserveIP(oldK, newK, attr)
	r := errM(err)
	r["reserved"] = res
	g.done(op, r)
	return res, err
}

func (g *gatedIPAM) UpdateAttr(key string, ip net.IP, attr floatingip.Attr) error {
	op := g.gate("UpdateAttr", M{"key": ParseKeyRec(key), "ip": IPName(ip), "attr": attrM(attr)})
	err := g.in.UpdateAttr(key, ip, attr)
	g.done(op, errM(err))
	return err
}

func (g *gatedIPAM) Release(key string, ip net.IP) error {
	op := g.gate("Release", M{"key": ParseKeyRec(key), "ip": IPName(ip)})
	err := g.in.Release(key, ip)
	g.done(op, errM(err))
	return err
}

func (g *gatedIPAM) First(key string) (*floatingip.FloatingIPInfo, error) {
	op := g.gate("First", M{"key": ParseKeyRec(key)})
	f, err := g.in.First(key)
	r := errM(err)
	r["ip"] = "none"
	if f != nil {
		r["ip"] = IPName(f.IP)
	}
	g.done(op, r)
	return f, err
}

func (g *gatedIPAM) ByIP(ip net.IP) (floatingip.FloatingIP, error) {
	op := g.gate("ByIP", M{"ip": IPName(ip)})
	f, err := g.in.ByIP(ip)
	r := errM(err)
	r["key"], r["uid"], r["node"], r["policy"] = ParseKeyRec(f.Key), f.PodUid, f.NodeName, int(f.Policy)
	g.done(op, r)
	return f, err
}

func (g *gatedIPAM) ByPrefix(prefix string) ([]*floatingip.FloatingIPInfo, error) {
	op := g.gate("ByPrefix", M{"prefix": ParseKeyRec(prefix)})
	infos, err := g.in.ByPrefix(prefix)
	r := errM(err)
	r["ips"] = infoIPs(infos) // in the order returned (map order): resync walks it in this order
	g.done(op, r)
	return infos, err
}

func (g *gatedIPAM) ByKeyword(kw string) ([]floatingip.FloatingIP, error) {
	op := g.gate("ByKeyword", M{"keyword": kw})
	fips, err := g.in.ByKeyword(kw)
	r := errM(err)
	ips := []string{}
	for _, f := range fips {
		ips = append(ips, IPName(f.IP))
	}
	sort.Strings(ips)
	r["ips"] = ips
	g.done(op, r)
	return fips, err
}

func (g *gatedIPAM) ByKeyAndIPRanges(key string, rr [][]nets.IPRange) ([]*floatingip.FloatingIPInfo, error) {
	op := g.gate("ByKeyAndIPRanges", M{"key": ParseKeyRec(key), "ranges": rangesM(rr)})
	infos, err := g.in.ByKeyAndIPRanges(key, rr)
	r := errM(err)
	r["ips"] = infoIPs(infos)
	g.done(op, r)
	return infos, err
}

// NodeSubnet is called with the plugin's nodeSubnetLock (a plain mutex) held, so it is not a park point:
// it is recorded as an un-gated read of the current segment.
func (g *gatedIPAM) NodeSubnet(ip net.IP) *net.IPNet {
	node := ip.String()
	for n, nd := range g.w.Nodes {
		if nd.Status.Addresses[0].Address == ip.String() {
			node = n
		}
	}
	sn := g.in.NodeSubnet(ip)
	name := "none"
	if sn != nil {
		name = SubnetName(sn.String())
	}
	g.w.S.Read(M{"read": "NodeSubnet", "node": node, "subnet": name})
	return sn
}

func (g *gatedIPAM) NodeSubnetsByIPRanges(rr [][]nets.IPRange) (sets.String, error) {
	op := g.gate("NodeSubnetsByIPRanges", M{"ranges": rangesM(rr)})
	s, err := g.in.NodeSubnetsByIPRanges(rr)
	r := errM(err)
	names := []string{}
	for _, c := range s.List() {
		names = append(names, SubnetName(c))
	}
	sort.Strings(names)
	r["subnets"] = names
	g.done(op, r)
	return s, err
}

func (g *gatedIPAM) Describe(ch chan<- *prometheus.Desc) { g.in.Describe(ch) }
func (g *gatedIPAM) Collect(ch chan<- prometheus.Metric) { g.in.Collect(ch) }
