package ipamenv

import (
	"encoding/json"
	"fmt"
	"net"
	"sort"
	"strings"

	"tkestack.io/galaxy/pkg/ipam/floatingip"
	"tkestack.io/galaxy/pkg/utils/nets"
)

// Namespace used for every namespaced object of the IPAM harness.
const NS = "ns"

// KeyRec is the structured (abstract) form of an allocation key.
type KeyRec struct {
	Pool string `json:"pool"`
	Kind string `json:"kind"`
	App  string `json:"app"`
	Pod  string `json:"pod"`
}

// ParseKeyRec maps a key string of the layouts produced by util.KeyObj to its abstract record. It is the
// harness's own parser (the real ParseKey is a system under test of C11). Unknown layouts are kept verbatim
// in Kind with a "raw:" marker so that they never compare equal to a modelled key.
func ParseKeyRec(key string) KeyRec {
	if key == "" {
		return KeyRec{}
	}
	r := KeyRec{}
	rest := key
	if strings.HasPrefix(key, "pool__") {
		parts := strings.SplitN(key[len("pool__"):], "_", 2)
		if len(parts) != 2 {
			return KeyRec{Kind: "raw:" + key}
		}
		r.Pool = parts[0]
		rest = parts[1]
		if rest == "" {
			return r
		}
	}
	parts := strings.Split(rest, "_")
	if len(parts) != 4 || parts[1] != NS {
		return KeyRec{Kind: "raw:" + key}
	}
	r.Kind, r.App, r.Pod = parts[0], parts[2], parts[3]
	return r
}

// String renders the key string of a record (inverse of ParseKeyRec on modelled layouts).
func (k KeyRec) String() string {
	if k == (KeyRec{}) {
		return ""
	}
	prefix := ""
	if k.Pool != "" {
		prefix = "pool__" + k.Pool + "_"
		if k.Kind == "" {
			return prefix
		}
	}
	return fmt.Sprintf("%s%s_%s_%s_%s", prefix, k.Kind, NS, k.App, k.Pod)
}

// ---- abstract names <-> real addresses ----

// IPName returns "ip<i>" for the real address 10.0.0.(10+i) and "ip<100+i>" for 10.0.1.(10+i) (the second pod
// subnet, see PoolConf.Net); other addresses are returned verbatim.
func IPName(ip net.IP) string {
	ip4 := ip.To4()
	if ip4 != nil && ip4[0] == 10 && ip4[1] == 0 && ip4[2] == 0 && ip4[3] > 10 && ip4[3] < 110 {
		return fmt.Sprintf("ip%d", int(ip4[3])-10)
	}
	if ip4 != nil && ip4[0] == 10 && ip4[1] == 0 && ip4[2] == 1 && ip4[3] > 10 && ip4[3] < 110 {
		return fmt.Sprintf("ip%d", 100+int(ip4[3])-10)
	}
	return ip.String()
}

// IPAddr is the inverse of IPName.
func IPAddr(name string) net.IP {
	var i int
	if _, err := fmt.Sscanf(name, "ip%d", &i); err == nil {
		if i > 100 {
			return net.IPv4(10, 0, 1, byte(10+i-100)).To4()
		}
		return net.IPv4(10, 0, 0, byte(10+i)).To4()
	}
	return net.ParseIP(name)
}

func ipIndex(name string) int {
	var i int
	fmt.Sscanf(name, "ip%d", &i)
	return i
}

// SubnetCIDR maps "s<k>" (k = 1..5) to the node subnet 10.(100+k).0.0/24 and "s<k>" (k = 6..9) to the single-host
// node subnet 10.(100+k).0.10/32.
func SubnetCIDR(name string) string {
	var k int
	fmt.Sscanf(name, "s%d", &k)
	if k >= 6 {
		return fmt.Sprintf("10.%d.0.10/32", 100+k)
	}
	return fmt.Sprintf("10.%d.0.0/24", 100+k)
}

// SubnetName is the inverse of SubnetCIDR.
func SubnetName(cidr string) string {
	var k, m int
	if _, err := fmt.Sscanf(cidr, "10.%d.0.0/%d", &k, &m); err == nil && k >= 100 && m == 24 {
		return fmt.Sprintf("s%d", k-100)
	}
	if _, err := fmt.Sscanf(cidr, "10.%d.0.10/%d", &k, &m); err == nil && k >= 106 && m == 32 {
		return fmt.Sprintf("s%d", k-100)
	}
	return cidr
}

func SubnetNet(name string) *net.IPNet {
	_, n, _ := net.ParseCIDR(SubnetCIDR(name))
	return n
}

// NodeAddr is the address of node "n<j>" placed in subnet s<k>: 10.(100+k).0.(10+j); the only address of a
// single-host subnet is 10.(100+k).0.10.
func NodeAddr(subnet string, j int) string {
	var k int
	fmt.Sscanf(subnet, "s%d", &k)
	if k >= 6 {
		return fmt.Sprintf("10.%d.0.10", 100+k)
	}
	return fmt.Sprintf("10.%d.0.%d", 100+k, 10+j)
}

// PoolConf is one abstract pool of a configuration.
type PoolConf struct {
	ID      string   `json:"id"`
	Subnets []string `json:"subnets"`
	IPs     []string `json:"ips"`
	// Net selects the pod subnet of the pool: 0 = 10.0.0.0/24 gateway 10.0.0.1 (IPs ip1..ip99), 1 = 10.0.1.0/25
	// gateway 10.0.1.1 (IPs ip101..ip199)
	Net int `json:"-"`
	// optional literal overrides (C13): pod subnet, gateway, vlan and ip range strings
	RawSubnet  string   `json:"-"`
	RawGateway string   `json:"-"`
	RawVlan    int      `json:"-"`
	RawIPs     []string `json:"-"`
}

// Config is an abstract floatingip configuration: pools share the pod subnet 10.0.0.0/24 (gateway
// 10.0.0.1) and are told apart by their vlan id (= numeric suffix of the pool id).
type Config []PoolConf

func (c Config) vlanOf(id string) int {
	var v int
	fmt.Sscanf(id, "p%d", &v)
	return v
}

// PoolIDByVlan returns the pool id for a vlan.
func PoolIDByVlan(v uint16) string { return fmt.Sprintf("p%d", v) }

// JSON renders the real configuration text.
func (c Config) JSON() string {
	type pc struct {
		NodeSubnets []string `json:"nodeSubnets"`
		IPs         []string `json:"ips"`
		Subnet      string   `json:"subnet"`
		Gateway     string   `json:"gateway"`
		Vlan        int      `json:"vlan"`
	}
	var out []pc
	for _, p := range c {
		e := pc{Subnet: "10.0.0.0/24", Gateway: "10.0.0.1", Vlan: c.vlanOf(p.ID)}
		if p.Net == 1 {
			e.Subnet, e.Gateway = "10.0.1.0/25", "10.0.1.1"
		}
		for _, s := range p.Subnets {
			e.NodeSubnets = append(e.NodeSubnets, SubnetCIDR(s))
		}
		idx := []int{}
		for _, ip := range p.IPs {
			idx = append(idx, ipIndex(ip))
		}
		sort.Ints(idx)
		for i := 0; i < len(idx); {
			j := i
			for j+1 < len(idx) && idx[j+1] == idx[j]+1 {
				j++
			}
			if i == j {
				e.IPs = append(e.IPs, IPAddr(fmt.Sprintf("ip%d", idx[i])).String())
			} else {
				e.IPs = append(e.IPs, IPAddr(fmt.Sprintf("ip%d", idx[i])).String()+"~"+IPAddr(fmt.Sprintf("ip%d", idx[j])).String())
			}
			i = j + 1
		}
		if e.IPs == nil {
			e.IPs = []string{}
		}
		if p.RawSubnet != "" {
			e.Subnet, e.Gateway, e.Vlan, e.IPs = p.RawSubnet, p.RawGateway, p.RawVlan, p.RawIPs
		}
		out = append(out, e)
	}
	b, _ := json.Marshal(out)
	return string(b)
}

// Pools decodes the configuration with the real decoder.
func (c Config) Pools() ([]*floatingip.FloatingIPPool, error) {
	var conf []*floatingip.FloatingIPPool
	if err := json.Unmarshal([]byte(c.JSON()), &conf); err != nil {
		return nil, err
	}
	return conf, nil
}

// Abstract renders the configuration as the spec's `pools` value.
func (c Config) Abstract() map[string]interface{} {
	m := map[string]interface{}{}
	for _, p := range c {
		m[p.ID] = map[string]interface{}{"subnets": nonNil(p.Subnets), "ips": nonNil(p.IPs), "info": c.InfoOf(p)}
	}
	return m
}

// InfoOf is what the binding annotation must carry with an IP of the pool: vlan, mask bits, gateway.
func (c Config) InfoOf(p PoolConf) map[string]interface{} {
	if p.Net == 1 {
		return map[string]interface{}{"vlan": c.vlanOf(p.ID), "mask": 25, "gw": "10.0.1.1"}
	}
	return map[string]interface{}{"vlan": c.vlanOf(p.ID), "mask": 24, "gw": "10.0.0.1"}
}

func nonNil(s []string) []string {
	if s == nil {
		return []string{}
	}
	return s
}

// RangeOf builds the []nets.IPRange covering exactly the named IPs.
func RangeOf(names []string) []nets.IPRange {
	var out []nets.IPRange
	idx := []int{}
	for _, n := range names {
		idx = append(idx, ipIndex(n))
	}
	sort.Ints(idx)
	for i := 0; i < len(idx); {
		j := i
		for j+1 < len(idx) && idx[j+1] == idx[j]+1 {
			j++
		}
		out = append(out, nets.IPRange{First: IPAddr(fmt.Sprintf("ip%d", idx[i])), Last: IPAddr(fmt.Sprintf("ip%d", idx[j]))})
		i = j + 1
	}
	return out
}

// RangeStrings renders the request_ip_range annotation form of a range list.
func RangeStrings(names []string) []string {
	var out []string
	for _, r := range RangeOf(names) {
		out = append(out, r.String())
	}
	return out
}
