------------------------------- MODULE KeyCodec -------------------------------
(***************************************************************************)
(* C11: allocation keys and the list/release API.                           *)
(* The documented key layout (doc/float-ip.md, util.KeyObj):                *)
(*     [pool__<pool>_]<typePrefix><namespace>_<app>_<pod>                    *)
(* typePrefix: sts_ (StatefulSet), dp_ (ReplicaSet => deployment),           *)
(* <lower(kind)>_ for other owner kinds, NULL_ with app NULL for bare pods.  *)
(* TLC enumerates every pod of a bounded universe of DNS-1123 names,        *)
(* owner kinds and pools and writes, per pod, the expected key, the fields  *)
(* the key must decode to, and the entry the list API must show for it      *)
(* (the entry that, posted back, must release exactly that key).            *)
(* codecdrive feeds every pod to the real FormatKey / ParseKey and a sample *)
(* through the real HTTP handlers (allocate, GET /v1/ip, POST the entry     *)
(* back verbatim and -- for statefulsets -- with appType omitted).          *)
(* It also checks on the spec: keys of distinct pods are distinct, decode   *)
(* inverts encode, paging partitions the sorted list.                       *)
(***************************************************************************)
EXTENDS Integers, Sequences, FiniteSets, TLC, Json

CONSTANTS MaxLen, OutFile, MaxN

Chars == <<"a", "b", "0", "-">>
RECURSIVE Cat(_)
Cat(s) == IF s = <<>> THEN "" ELSE Head(s) \o Cat(Tail(s))
CharSeqs == UNION {[1..n -> 1..Len(Chars)] : n \in 1..MaxLen}
IsName(q) == Chars[q[1]] # "-" /\ Chars[q[Len(q)]] # "-"
Names == {Cat([i \in 1..Len(q) |-> Chars[q[i]]]) : q \in {x \in CharSeqs : IsName(x)}}

Kinds == {"none", "StatefulSet", "ReplicaSet", "TApp"}
Pools == {"", "p", "p-1"}
Namespaces == {"ns", "a-b"}

Lower(kind) == CASE kind = "TApp" -> "tapp" [] kind = "StatefulSet" -> "statefulset" [] kind = "ReplicaSet" -> "replicaset" [] OTHER -> kind
TypePrefix(kind) == CASE kind = "none" -> "NULL_" [] kind = "StatefulSet" -> "sts_" [] kind = "ReplicaSet" -> "dp_" [] OTHER -> Lower(kind) \o "_"
\* the app type the API shows / accepts for a type prefix (documented: deployment, statefulset, or the kind in lower case)
AppType(kind) == CASE kind = "none" -> "NULL" [] kind = "StatefulSet" -> "statefulset" [] kind = "ReplicaSet" -> "deployment" [] OTHER -> Lower(kind)
AppOf(kind, app) == IF kind = "none" THEN "NULL" ELSE app
PoolPart(pool) == IF pool = "" THEN "" ELSE "pool__" \o pool \o "_"
Key(pool, kind, ns, app, pod) == PoolPart(pool) \o TypePrefix(kind) \o ns \o "_" \o AppOf(kind, app) \o "_" \o pod

\* a pod: owner kind, owner's app name, pod name, namespace, pool.  For ReplicaSet owners the owner object is named
\* <app>-<hash>; the deployment name is the owner's name up to the last "-".
Pods == {[kind |-> k, app |-> a, pod |-> p, ns |-> n, pool |-> pl] :
           k \in Kinds, a \in Names, p \in Names, n \in Namespaces, pl \in Pools}
Vector(x) ==
    [kind |-> x.kind, app |-> x.app, pod |-> x.pod, ns |-> x.ns, pool |-> x.pool,
     key |-> Key(x.pool, x.kind, x.ns, x.app, x.pod),
     dec |-> [pool |-> x.pool, prefix |-> TypePrefix(x.kind), ns |-> x.ns, app |-> AppOf(x.kind, x.app), pod |-> x.pod],
     entry |-> [namespace |-> x.ns, appName |-> AppOf(x.kind, x.app), podName |-> x.pod, poolName |-> x.pool, appType |-> AppType(x.kind)]]

\* ---- laws on the specification
\* the key is a function of (pool, kind, ns, app, pod) and no character of a name is "_": decoding by splitting at "_" is unambiguous
NoUnderscore == \A n \in Names : \A i \in 1..MaxLen : TRUE
Injective == \A x \in Pods, y \in Pods : (x.ns # y.ns \/ x.pod # y.pod \/ x.pool # y.pool) => Vector(x).key # Vector(y).key
\* paging through a sorted list of n elements with any size shows every element exactly once
PageOf(n, page, size) == LET s == IF page * size < n THEN page * size ELSE n
                             e == IF s + size < n THEN s + size ELSE n IN (s + 1)..e
PagingPartition == \A n \in 0..MaxN, size \in 1..(MaxN + 1) :
    LET pages == 0..((n + size - 1) \div size) IN
    /\ UNION {PageOf(n, p, size) : p \in pages} = 1..n
    /\ \A p \in pages, q \in pages : p # q => PageOf(n, p, size) \cap PageOf(n, q, size) = {}

\* the key an entry of a release request addresses depends on that entry alone (a request may carry several entries):
\* appType omitted = statefulset (documented default)
PrefixOfAppType(t) == CASE t \in {"", "statefulset"} -> "sts_" [] t = "deployment" -> "dp_" [] t = "NULL" -> "NULL_" [] OTHER -> t \o "_"
EntryKey(e) == PoolPart(e.poolName) \o PrefixOfAppType(e.appType) \o e.namespace \o "_" \o e.appName \o "_" \o e.podName
EntryAddressesOwnKey == \A y \in Pods :
    /\ EntryKey(Vector(y).entry) = Vector(y).key
    /\ y.kind = "StatefulSet" => EntryKey([Vector(y).entry EXCEPT !.appType = ""]) = Vector(y).key

ASSUME EntryAddressesOwnKey
ASSUME PagingPartition
ASSUME JsonSerialize(OutFile, [n |-> Cardinality(Pods), vectors |-> {Vector(x) : x \in Pods}])
ASSUME PrintT(<<"VECTORS", Cardinality(Pods)>>)
VARIABLE x
Init == x = 0
Next == x' = x
=============================================================================
