---------------------------------- MODULE GC ----------------------------------
(***************************************************************************)
(* C17: the garbage collector of the galaxy daemon (pkg/gc/flannel_gc.go). *)
(* A round walks the state directories (file name = container id) and the  *)
(* IP reservation directories (file name = IP, content = container id) and *)
(* asks the container runtime about every id:                               *)
(*    collect iff the runtime answered and says not-found / exited / dead.  *)
(* State files are removed after the port-mapping clean-up callback was     *)
(* called for the id.                                                        *)
(* The module is a behaviour specification (rounds interleaved with         *)
(* container and runtime changes) with the safety invariants and the        *)
(* liveness property, checked by TLC; EmitVectors makes TLC write bounded   *)
(* scenarios with the files that must exist after each phase for gcdrive    *)
(* to run against the real collector with a fake container runtime.         *)
(***************************************************************************)
EXTENDS Integers, Sequences, FiniteSets, TLC, Json

CONSTANTS Ids, OutFile, EmitVectors

States == {"running", "exited", "dead", "absent"}
RtModes == {"up", "err", "down"}          \* answers, answers 500, unreachable

VARIABLES ctr, rt, bad, files, portcb, removedLive, removedBlind
vars == <<ctr, rt, bad, files, portcb, removedLive, removedBlind>>
\* files: set of [dir, id] (dir "state" or "ip"); portcb: ids for which the port clean-up ran
\* bad: containers whose inspect call fails (500) although the runtime answers for the others -- "runtime errors on any
\*      inspect call": nothing of theirs may be collected, and they must not keep the others' leftovers from being collected

Collectable(c, r, b, id) == r = "up" /\ id \notin b /\ c[id] \in {"exited", "dead", "absent"}

Init == /\ ctr \in [Ids -> States] /\ rt \in RtModes /\ bad \in {b \in SUBSET Ids : Cardinality(b) <= 1}
        /\ files = {[dir |-> d, id |-> i] : d \in {"state", "ip"}, i \in Ids}
        /\ portcb = {} /\ removedLive = FALSE /\ removedBlind = FALSE
Round == LET gone == {f \in files : Collectable(ctr, rt, bad, f.id)} IN
         /\ files' = files \ gone
         /\ portcb' = portcb \cup {f.id : f \in {g \in gone : g.dir = "state"}}
         /\ removedLive' = (removedLive \/ \E f \in gone : ctr[f.id] = "running")
         /\ removedBlind' = (removedBlind \/ (rt # "up" /\ gone # {}) \/ \E f \in gone : f.id \in bad)
         /\ UNCHANGED <<ctr, rt, bad>>
ContainerDies(i) == /\ ctr[i] = "running" /\ \E s \in {"exited", "dead", "absent"} : ctr' = [ctr EXCEPT ![i] = s]
                    /\ UNCHANGED <<rt, bad, files, portcb, removedLive, removedBlind>>
RuntimeChanges == /\ \E m \in RtModes : m # rt /\ rt' = m
                  /\ UNCHANGED <<ctr, bad, files, portcb, removedLive, removedBlind>>
\* the inspect fault of a container goes away (it only ever shrinks, so that "eventually" has a meaning)
InspectRepaired == /\ bad # {} /\ bad' = {}
                   /\ UNCHANGED <<ctr, rt, files, portcb, removedLive, removedBlind>>
Next == Round \/ (\E i \in Ids : ContainerDies(i)) \/ RuntimeChanges \/ InspectRepaired
Spec == Init /\ [][Next]_vars /\ WF_vars(Round)

NeverCollectLive == ~removedLive /\ \A i \in Ids : ctr[i] = "running" => \A d \in {"state", "ip"} : [dir |-> d, id |-> i] \in files
FailSafe == ~removedBlind
PortCleanedBeforeStateFile == \A i \in Ids : [dir |-> "state", id |-> i] \notin files => i \in portcb
\* once the runtime answers for good, everything a dead container left behind goes away
\* (a container whose own inspect keeps failing is the one exception: the runtime "cannot be asked" about it)
EventuallyCollected == (<>[](rt = "up")) => <>[](\A f \in files : ctr[f.id] = "running" \/ f.id \in bad)

(* ---- vectors: containers x runtime phases; expected files after each phase (each phase lasts >= 2 rounds) ---- *)
Phases == UNION {[1..n -> RtModes] : n \in 1..2}
After(c, fs, m, b) == {f \in fs : ~Collectable(c, m, b, f.id)}
RECURSIVE Expect(_, _, _, _, _)
Expect(c, fs, ph, i, b) == IF i > Len(ph) THEN <<>> ELSE LET nf == After(c, fs, ph[i], b) IN <<nf>> \o Expect(c, nf, ph, i + 1, b)
AllFiles == {[dir |-> d, id |-> i] : d \in {"state", "ip"}, i \in Ids}
\* porterr: containers whose port clean-up callback returns an error (e.g. an unreadable port file): what a dead
\* container left behind is removed all the same
\* bad: at most one container whose inspect fails throughout the scenario while the runtime answers for the others
Vectors == {[ctr |-> c, phases |-> ph, porterr |-> pe, bad |-> b, expect |-> Expect(c, AllFiles, ph, 1, b)] :
              c \in [Ids -> States], ph \in Phases, pe \in {{}, {CHOOSE i \in Ids : TRUE}, Ids},
              b \in {x \in SUBSET Ids : Cardinality(x) <= 1}}
ASSUME EmitVectors => JsonSerialize(OutFile, [n |-> Cardinality(Vectors), vectors |-> Vectors])
=============================================================================
