------------------------------- MODULE FipConf -------------------------------
(***************************************************************************)
(* C20: floating-IP pool configuration over a W-bit address space          *)
(* (addresses 0 .. 2^W-1; the harness embeds them at three bases of the    *)
(* IPv4 space, among them the very top, where 32-bit arithmetic wraps).    *)
(* A pool = (gateway g, prefix length m, list of ranges <<first,last>>).   *)
(* The specification is written over the integers: validity, set of IPs,   *)
(* size, membership.  TLC enumerates ALL pools with at most MaxRanges      *)
(* ranges and writes one test vector per pool with the expected values;    *)
(* fipdrive feeds each vector to the real UnmarshalJSON / Size / Contains  *)
(* / ConfigurePool+ByPrefix (enumeration) / MarshalJSON and compares.      *)
(* Words.tla (same run) checks that the address-walking loops terminate.   *)
(***************************************************************************)
EXTENDS Integers, Sequences, FiniteSets, TLC, Json

CONSTANTS W, MaxRanges, Masks, Gateways, OutFile

Top == 2^W - 1
Addr == 0..Top
\* subnet of gateway g with prefix length m (m counted inside the W-bit space: m = 0 is the whole space)
Block(m) == 2^(W - m)
InSubnet(a, g, m) == a \div Block(m) = g \div Block(m)

\* a range may be written reversed: that is a decode error
RangeOK(r) == r[1] <= r[2]
SetOf(rs) == UNION {r[1]..r[2] : r \in {rs[i] : i \in 1..Len(rs)}}
Valid(g, m, rs) ==
    /\ \A i \in 1..Len(rs) : RangeOK(rs[i]) /\ InSubnet(rs[i][1], g, m) /\ InSubnet(rs[i][2], g, m)
    /\ \A i \in 2..Len(rs) : rs[i][1] > rs[i - 1][2] + 1       \* sorted, disjoint, not mergeable
SizeOf(rs) == Cardinality(SetOf(rs))

Ranges == {<<a, b>> : a \in Addr, b \in Addr}
RangeLists == UNION {[1..n -> Ranges] : n \in 0..MaxRanges}

\* d: the address written in the "subnet" field of the configuration; only its prefix length matters, the pool's subnet is
\* the gateway's (what Contains, enumeration and reload use)
Vector(g, m, rs, d) ==
    [g |-> g, m |-> m, d |-> d, ranges |-> rs, valid |-> Valid(g, m, rs),
     size |-> IF Valid(g, m, rs) THEN SizeOf(rs) ELSE 0,
     members |-> IF Valid(g, m, rs) THEN SetOf(rs) ELSE {}]

\* laws TLC checks on the specification itself (for every valid pool)
Laws ==
    \A g \in Gateways, m \in Masks, rs \in RangeLists :
        Valid(g, m, rs) =>
            /\ SizeOf(rs) = Cardinality(SetOf(rs))
            /\ \A a \in Addr : (a \in SetOf(rs)) <=> \E i \in 1..Len(rs) : rs[i][1] <= a /\ a <= rs[i][2]
            /\ SizeOf(rs) = LET S(i) == rs[i][2] - rs[i][1] + 1 IN
                            LET RECURSIVE Sum(_) Sum(i) == IF i = 0 THEN 0 ELSE S(i) + Sum(i - 1) IN Sum(Len(rs))

Decls(g, m) == {(g \div Block(m)) * Block(m), ((g \div Block(m)) * Block(m) + Block(m)) % (Top + 1)}
Vectors == {Vector(g, m, rs, d) : g \in Gateways, m \in Masks, rs \in RangeLists, d \in {x \in Addr : \E gg \in Gateways, mm \in Masks : x \in Decls(gg, mm)}}
ASSUME Laws
ASSUME JsonSerialize(OutFile, [w |-> W, n |-> Cardinality(Vectors), vectors |-> Vectors])
ASSUME PrintT(<<"VECTORS", Cardinality(Vectors), "valid", Cardinality({v \in Vectors : v.valid})>>)

VARIABLE x
Init == x = 0
Next == x' = x
=============================================================================
