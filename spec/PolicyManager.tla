---------------------------- MODULE PolicyManager ----------------------------
(***************************************************************************)
(* Behaviour of galaxy's PolicyManager (pkg/policy/policy.go, event.go) as  *)
(* transitions of the kernel state: what every entry point submits, in      *)
(* which order, and what the kernel does with each submission (atomic       *)
(* restore batches, refusals).  One operator per pass / handler:            *)
(*                                                                          *)
(*    SyncRules      createIPSet for every derived set, ONE restore batch    *)
(*                   (chain lines + rules of all policy chains, flush and   *)
(*                   -X of stale policy chains), then destroy stale sets    *)
(*    SyncPod        SyncPodChains for one pod: delete its chain, or        *)
(*                   ensure the dispatch chains and hooks, ONE restore      *)
(*                   batch for the pod chain, then the dispatch rules        *)
(*    PodIPInSets    SyncPodIPInIPSet (add / delete the pod's address)      *)
(*    FullSync / OnAddPolicy / OnUpdatePolicy / OnDeletePolicy / OnUpdatePod *)
(*    / OnDeletePod  the entry points, composed as in the code              *)
(*                                                                          *)
(* The manager's memory is the cluster snapshot `m` its last                *)
(* syncNetworkPolices read (p.policies holds the compiled policies with the *)
(* pod addresses of that moment).  Rule order inside chains is kept as the   *)
(* code produces it; comparison with the real kernel state is modulo the    *)
(* order of rules inside galaxy-owned chains (CanonK in Trace_PolicyManager).*)
(***************************************************************************)
EXTENDS NetPol

NoCluster == [nss |-> Emp, pods |-> Emp, pols |-> Emp]

IsPolicyChain(n) == Prefixed(n, "plcy:") \/ Prefixed(n, "glx?:GLX-PLCY-")
IsGalaxySet(n) == \E pre \in {"ip:", "sip:", "snet:", "dip:", "dnet:", "glx?:"} : Prefixed(n, pre)
RefsChain(chains, n) == \E c2 \in DOMAIN chains : \E i \in 1..Len(chains[c2]) : chains[c2][i].target = n
RefsSet(chains, n) == \E c2 \in DOMAIN chains : \E i \in 1..Len(chains[c2]) : \E j \in 1..Len(chains[c2][i].sets) : chains[c2][i].sets[j].set = n
Without(f, S) == [x \in (DOMAIN f) \ S |-> f[x]]
Upd(f, k, v) == [x \in (DOMAIN f) \cup {k} |-> IF x = k THEN v ELSE f[x]]
RemoveFirst(s, P(_)) ==
    IF \E i \in 1..Len(s) : P(s[i])
      THEN LET i == CHOOSE i \in 1..Len(s) : P(s[i]) /\ \A j \in 1..(i - 1) : ~P(s[j]) IN SubSeq(s, 1, i - 1) \o SubSeq(s, i + 1, Len(s))
      ELSE s

(* ------------------------------------------------------------------ syncRules *)
SyncRules(K, U, m) ==
    LET D == Derived(m, U, AllDevs)
        \* createIPSet: every derived set exists with exactly its members afterwards
        sets1 == [n \in (DOMAIN K.sets) \cup (DOMAIN D.sets) |-> IF n \in DOMAIN D.sets THEN D.sets[n] ELSE K.sets[n]]
        active == {PlcyChain(q) : q \in DOMAIN m.pols}
        stale == {n \in DOMAIN K.chains : IsPolicyChain(n) /\ n \notin active}
        \* the batch: active chains rewritten, stale ones flushed ...
        work == [n \in (DOMAIN K.chains) \cup active |->
                    IF n \in active THEN D.chains[n] ELSE IF n \in stale THEN <<>> ELSE K.chains[n]]
        \* ... and deleted; refused as a whole if one of them is still jumped to
        refused == \E n \in stale : RefsChain(work, n)
        chains2 == IF refused THEN K.chains ELSE Without(work, stale)
        \* afterwards: sets with galaxy's prefix that no policy derives are destroyed unless a rule still refers to them
        gone == {n \in DOMAIN sets1 : IsGalaxySet(n) /\ n \notin DOMAIN D.sets /\ ~RefsSet(chains2, n)}
    IN [sets |-> Without(sets1, gone), chains |-> chains2]

(* ------------------------------------------------------------------ SyncPodChains / deletePodChains *)
PodRec(c, p) == c.pods[p]
\* the policies of the manager's memory that select the pod object of the event
MInPols(m, pod) == {q \in DOMAIN m.pols : HasIngress(m.pols[q]) /\ m.pols[q].ns = pod.ns /\ m.pols[q].sel \subseteq pod.labels}
MEgPols(m, pod) == {q \in DOMAIN m.pols : HasEgress(m.pols[q]) /\ m.pols[q].ns = pod.ns /\ m.pols[q].sel \subseteq pod.labels}
Jump(t) == R("", "", "all", <<>>, <<>>, FALSE, t)
DeletePodChains(K, key) ==
    LET pc == PodChain(key)
        strip(n) == IF n \in DOMAIN K.chains THEN RemoveFirst(K.chains[n], LAMBDA r : r.target = pc) ELSE <<>>
        ch1 == [n \in DOMAIN K.chains |-> IF n \in {"ingress", "egress"} THEN strip(n) ELSE K.chains[n]]
    IN IF pc \notin DOMAIN ch1 THEN [K EXCEPT !.chains = ch1]
       ELSE IF RefsChain(ch1, pc) THEN [K EXCEPT !.chains = Upd(ch1, pc, <<>>)]      \* flushed; -X refused (still referenced)
       ELSE [K EXCEPT !.chains = Without(ch1, {pc})]
EnsureHook(chains, builtin, target) ==
    IF \E i \in 1..Len(chains[builtin]) : chains[builtin][i] = Jump(target) THEN chains
    ELSE Upd(chains, builtin, <<Jump(target)>> \o chains[builtin])
EnsureBasic(chains) ==
    LET c1 == IF "ingress" \in DOMAIN chains THEN chains ELSE Upd(chains, "ingress", <<>>)
        c2 == IF "egress" \in DOMAIN c1 THEN c1 ELSE Upd(c1, "egress", <<>>)
    IN EnsureHook(EnsureHook(EnsureHook(EnsureHook(c2, "FORWARD", "ingress"), "FORWARD", "egress"), "OUTPUT", "ingress"), "INPUT", "egress")
EnsureRuleAppend(chains, n, r) == IF \E i \in 1..Len(chains[n]) : chains[n][i] = r THEN chains ELSE Upd(chains, n, Append(chains[n], r))
DeleteRule1(chains, n, r) == IF n \in DOMAIN chains THEN Upd(chains, n, RemoveFirst(chains[n], LAMBDA x : x = r)) ELSE chains
\* order: the jumps follow the order of the manager's policy list (any order: SeqOf)
SyncPod(K, m, key, pod) ==
    LET ins == MInPols(m, pod)  egs == MEgPols(m, pod)  pc == PodChain(key) IN
    IF ins \cup egs = {} THEN DeletePodChains(K, key)
    ELSE IF pod.ip = "" THEN K
    ELSE LET b == EnsureBasic(K.chains)
             dangling == \E q \in ins \cup egs : PlcyChain(q) \notin DOMAIN b
             body == <<R("", "", "all", <<>>, <<>>, TRUE, "ACCEPT")>> \o [i \in 1..Cardinality(ins \cup egs) |-> Jump(PlcyChain(SeqOf(ins \cup egs)[i]))] \o <<Jump("DROP")>>
         IN IF dangling THEN [K EXCEPT !.chains = b]                  \* the pod chain batch is refused as a whole; nothing more is done
            ELSE LET c1 == Upd(b, pc, body)
                     din == R("", pod.ip, "all", <<>>, <<>>, FALSE, pc)
                     deg == R(pod.ip, "", "all", <<>>, <<>>, FALSE, pc)
                     c2 == IF ins # {} THEN EnsureRuleAppend(c1, "ingress", din) ELSE DeleteRule1(c1, "ingress", din)
                     c3 == IF egs # {} THEN EnsureRuleAppend(c2, "egress", deg) ELSE DeleteRule1(c2, "egress", deg)
                 IN [K EXCEPT !.chains = c3]
RECURSIVE SyncPodsOver(_, _, _, _)
SyncPodsOver(K, m, c, S) ==
    IF S = {} THEN K ELSE LET p == CHOOSE p \in S : TRUE IN SyncPodsOver(SyncPod(K, m, p, c.pods[p]), m, c, S \ {p})
SyncPods(K, m, c) == SyncPodsOver(K, m, c, LocalPods(c))

(* ------------------------------------------------------------------ SyncPodIPInIPSet *)
\* does a podSelector / namespaceSelector peer of a policy in namespace ns select the pod (namespaces as listed now)?
PeerSelects(c, peer, ns, pod) ==
    /\ peer.block = "" /\ (peer.pod.has \/ peer.ns.has)
    /\ peer.pod.has => peer.pod.labels \subseteq pod.labels
    /\ IF peer.ns.has THEN pod.ns \in DOMAIN c.nss /\ peer.ns.labels \subseteq c.nss[pod.ns] ELSE pod.ns = ns
\* the sets of the manager's policies the pod's address belongs to
SetsOfPod(c, m, pod) ==
    UNION {LET pol == m.pols[q] IN
           (IF pol.ns = pod.ns /\ pol.sel \subseteq pod.labels THEN {IpSetName(q)} ELSE {})
           \cup (IF HasIngress(pol) THEN {SetName("sip", i - 1, q) : i \in {j \in 1..Len(pol.ingress) :
                                              \E k \in 1..Len(pol.ingress[j].peers) : PeerSelects(c, pol.ingress[j].peers[k], pol.ns, pod)}} ELSE {})
           \cup (IF HasEgress(pol) THEN {SetName("dip", i - 1, q) : i \in {j \in 1..Len(pol.egress) :
                                              \E k \in 1..Len(pol.egress[j].peers) : PeerSelects(c, pol.egress[j].peers[k], pol.ns, pod)}} ELSE {})
          : q \in DOMAIN m.pols}
PodIPInSets(K, c, m, pod, add) ==
    LET S == SetsOfPod(c, m, pod) \cap DOMAIN K.sets IN
    [K EXCEPT !.sets = [n \in DOMAIN K.sets |-> IF n \in S /\ K.sets[n].type = "ip"
                                                  THEN [K.sets[n] EXCEPT !.members = IF add THEN @ \cup {pod.ip} ELSE @ \ {pod.ip}]
                                                  ELSE K.sets[n]]]

(* ------------------------------------------------------------------ entry points: [K, m] -> [K, m] *)
St(K, m) == [K |-> K, m |-> m]
FullSync(s, U, c) == St(SyncPods(SyncRules(s.K, U, c), c, c), c)
OnAddPolicy(s, U, c) == FullSync(s, U, c)
OnUpdatePolicy(s, U, c) == FullSync(s, U, c)
OnDeletePolicy(s, U, c) == St(SyncRules(SyncPods(s.K, c, c), U, c), c)
OnUpdatePod(s, c, key, pod) ==
    LET K1 == IF pod.local THEN SyncPod(s.K, s.m, key, pod) ELSE s.K
        K2 == IF pod.ip # "" THEN PodIPInSets(K1, c, s.m, pod, TRUE) ELSE K1 IN St(K2, s.m)
OnDeletePod(s, c, key, pod) ==
    LET K1 == IF pod.local THEN DeletePodChains(s.K, key) ELSE s.K
        K2 == IF pod.ip # "" THEN PodIPInSets(K1, c, s.m, pod, FALSE) ELSE K1 IN St(K2, s.m)

(* ------------------------------------------------------------------ refusals (for NoDanglingBatch at model level) *)
\* does the pod-chain batch of SyncPod refer to a policy chain that does not exist?
SyncPodDangling(K, m, pod) ==
    LET t == MInPols(m, pod) \cup MEgPols(m, pod) IN
    t # {} /\ pod.ip # "" /\ \E q \in t : PlcyChain(q) \notin DOMAIN EnsureBasic(K.chains)
RECURSIVE AnyDangling(_, _, _, _)
AnyDangling(K, m, c, S) ==
    IF S = {} THEN FALSE
    ELSE LET p == CHOOSE p \in S : TRUE IN SyncPodDangling(K, m, c.pods[p]) \/ AnyDangling(SyncPod(K, m, p, c.pods[p]), m, c, S \ {p})
FullSyncDangling(s, U, c) == AnyDangling(SyncRules(s.K, U, c), c, c, LocalPods(c))

(* ------------------------------------------------------------------ a repaired synchronisation (proposal, checked by TLC) *)
\* phase 1 installs sets and policy chains but deletes nothing; phase 2 re-points the pod chains and removes pod chains
\* (with their dispatch rules) that no current local pod needs; phase 3 is today's syncRules, which now finds the stale
\* policy chains unreferenced
SyncRulesKeep(K, U, m) ==
    LET D == Derived(m, U, AllDevs)
        active == {PlcyChain(q) : q \in DOMAIN m.pols} IN
    [sets |-> [n \in (DOMAIN K.sets) \cup (DOMAIN D.sets) |-> IF n \in DOMAIN D.sets THEN D.sets[n] ELSE K.sets[n]],
     chains |-> [n \in (DOMAIN K.chains) \cup active |-> IF n \in active THEN D.chains[n] ELSE K.chains[n]]]
IsPodChain(n) == Prefixed(n, "podc:") \/ Prefixed(n, "glx?:GLX-POD-")
CleanPodChains(K, c) ==
    LET keep == {PodChain(p) : p \in Chained(c)}
        stale == {n \in DOMAIN K.chains : IsPodChain(n) /\ n \notin keep}
        strip(n) == SelectSeq(K.chains[n], LAMBDA r : r.target \notin stale) IN
    [K EXCEPT !.chains = [n \in (DOMAIN K.chains) \ stale |-> IF n \in {"ingress", "egress"} THEN strip(n) ELSE K.chains[n]]]
FullSyncRepaired(s, U, c) == St(SyncRules(CleanPodChains(SyncPods(SyncRulesKeep(s.K, U, c), c, c), c), U, c), c)
=============================================================================
