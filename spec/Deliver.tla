------------------------------- MODULE Deliver -------------------------------
(***************************************************************************)
(* C13: what galaxy-ipam allocated and persisted for a pod is what the     *)
(* CNI plugin is told to configure.  The chain is                           *)
(*   FloatingIP objects + pool configuration  --Bind-->  pod annotation     *)
(*   --galaxy daemon-->  CNI_ARGS  --plugins' decoder-->  (address, prefix  *)
(*   length, gateway, vlan) list                                            *)
(* and the property is that the composition is the identity, in order.      *)
(* TLC enumerates the pool attribute tuples (prefix length, gateway         *)
(* position, vlan) and the number of IPs per pod and emits one vector per   *)
(* combination with the list the plugin must receive; cnidrive -mode c13    *)
(* runs the REAL Bind, daemon and decoder end to end for each vector.       *)
(***************************************************************************)
EXTENDS Integers, Sequences, FiniteSets, TLC, Json
CONSTANTS OutFile, MaxIPs

Prefixes == {8, 24, 30, 32}
GwPos == {"first", "last"}
Vlans == {0, 2, 4094}
Pool == [prefix : Prefixes, gw : GwPos, vlan : Vlans]
\* a pod requests k ranges, the i-th served by pool ps[i]; what is delivered is, per range, the pool's attributes
Deliver(ps) == [i \in 1..Len(ps) |-> [idx |-> i, prefix |-> ps[i].prefix, gw |-> ps[i].gw, vlan |-> ps[i].vlan]]
PoolSeqs == UNION {[1..k -> Pool] : k \in 1..MaxIPs}
\* pools of one configuration need distinct pod subnets: distinct prefix or position in the sequence decides the embedding
Vectors == {[pools |-> ps, expect |-> Deliver(ps)] : ps \in PoolSeqs}
ASSUME \A ps \in PoolSeqs : Len(Deliver(ps)) = Len(ps)
ASSUME JsonSerialize(OutFile, [n |-> Cardinality(Vectors), vectors |-> Vectors])
ASSUME PrintT(<<"VECTORS", Cardinality(Vectors)>>)
VARIABLE x
Init == x = 0
Next == x' = x
=============================================================================
