-------------------------------- MODULE CNIMux --------------------------------
(***************************************************************************)
(* C12: how the galaxy daemon multiplexes one CNI request over the         *)
(* networks of a pod (pkg/galaxy/server.go resolveNetworks, cmdAdd;        *)
(* pkg/api/cniutil CmdAdd/CmdDel with the saved network list per           *)
(* container).                                                              *)
(*   Select(pod)    networks and interface names chosen for a pod          *)
(*   Add / Del      invocations a request causes, given which plugin       *)
(*                  invocations fail, and the saved list afterwards        *)
(* TLC enumerates scenarios (pods for two containers, a sequence of ADD/DEL *)
(* requests, a failure pattern per request), runs them through Add/Del and  *)
(* writes the expected invocation sequence and response of every request.   *)
(* cnidrive drives the real daemon over its unix socket with recording      *)
(* plugin binaries and compares; Isolation: the previous result a plugin    *)
(* sees is the result of the plugin invoked just before it IN THIS          *)
(* request, and a DEL sees none.                                            *)
(***************************************************************************)
EXTENDS Integers, Sequences, FiniteSets, TLC, Json

CONSTANTS Defaults,      \* default network list of the daemon configuration
          ENINet,        \* network for pods requesting an ENI IP ("" = not configured)
          MaxReq,        \* requests per scenario
          MaxFail,       \* failing (network, command) pairs per request
          OutFile

\* netd is defined only by a file in the network configuration directory, the others in the daemon's JSON configuration
Nets == {"neta", "netb", "netc", "netd"}
Range(s) == {s[i] : i \in 1..Len(s)}
IfName(i, req) == IF i = 1 THEN "eth0" ELSE IF req # "" THEN req ELSE "eth" \o ToString(i - 1)

\* pods: the networks annotation as a list of [name, ifreq] (empty = no annotation), written in comma or JSON form
PodFamily == {
    [id |-> "plain", ann |-> <<>>, form |-> "none", eni |-> FALSE],
    [id |-> "eni", ann |-> <<>>, form |-> "none", eni |-> TRUE],
    [id |-> "ab", ann |-> <<[name |-> "neta", ifreq |-> ""], [name |-> "netb", ifreq |-> ""]>>, form |-> "comma", eni |-> FALSE],
    [id |-> "ba-if", ann |-> <<[name |-> "netb", ifreq |-> ""], [name |-> "neta", ifreq |-> "net1"]>>, form |-> "comma", eni |-> TRUE],
    [id |-> "cab-json", ann |-> <<[name |-> "netc", ifreq |-> "x0"], [name |-> "neta", ifreq |-> ""], [name |-> "netb", ifreq |-> "x2"]>>, form |-> "json", eni |-> FALSE],
    [id |-> "c-json", ann |-> <<[name |-> "netc", ifreq |-> ""]>>, form |-> "json", eni |-> FALSE],
    [id |-> "ad", ann |-> <<[name |-> "neta", ifreq |-> ""], [name |-> "netd", ifreq |-> ""]>>, form |-> "comma", eni |-> FALSE],
    [id |-> "d", ann |-> <<[name |-> "netd", ifreq |-> ""]>>, form |-> "comma", eni |-> FALSE] }

Select(p) ==
    IF Len(p.ann) > 0 THEN [i \in 1..Len(p.ann) |-> [net |-> p.ann[i].name, ifn |-> IfName(i, p.ann[i].ifreq)]]
    ELSE IF p.eni /\ ENINet # "" THEN <<[net |-> ENINet, ifn |-> "eth0"]>>
    ELSE [i \in 1..Len(Defaults) |-> [net |-> Defaults[i], ifn |-> IfName(i, "")]]

Inv(cmd, n, prev) == [cmd |-> cmd, net |-> n.net, ifn |-> n.ifn, prev |-> prev]
Fails(F, net, cmd) == <<net, cmd>> \in F

\* DEL of nets[1..k] in reverse; returns [invs, failed (subsequence in original order)]
RECURSIVE DelDown(_, _, _)
DelDown(nets, k, F) ==
    IF k = 0 THEN [invs |-> <<>>, failed |-> <<>>]
    ELSE LET rest == DelDown(nets, k - 1, F) IN
         [invs |-> <<Inv("DEL", nets[k], "")>> \o rest.invs,
          failed |-> IF Fails(F, nets[k].net, "DEL") THEN Append(rest.failed, nets[k]) ELSE rest.failed]
\* failed accumulates lowest index first = original order

\* ADD of nets[i..]: returns index of the first failing ADD (0 = none) and the ADD invocations made
RECURSIVE AddUp(_, _, _)
AddUp(nets, i, F) ==
    IF i > Len(nets) THEN [invs |-> <<>>, failAt |-> 0]
    ELSE LET me == Inv("ADD", nets[i], IF i = 1 THEN "" ELSE nets[i - 1].net) IN
         IF Fails(F, nets[i].net, "ADD") THEN [invs |-> <<me>>, failAt |-> i]
         ELSE LET rest == AddUp(nets, i + 1, F) IN [invs |-> <<me>> \o rest.invs, failAt |-> rest.failAt]

\* saved: container id -> sequence of selected networks (absent = no file)
Add(saved, cid, p, F) ==
    LET nets == Select(p)  a == AddUp(nets, 1, F) IN
    IF a.failAt = 0 THEN [saved |-> (cid :> nets) @@ saved, ok |-> TRUE, invs |-> a.invs]
    ELSE LET d == DelDown(nets, a.failAt, F) IN
         [saved |-> IF Len(d.failed) > 0 THEN (cid :> d.failed) @@ saved
                    ELSE [c \in (DOMAIN saved) \ {cid} |-> saved[c]],
          ok |-> FALSE, invs |-> a.invs \o d.invs]
Del(saved, cid, F) ==
    IF cid \notin DOMAIN saved THEN [saved |-> saved, ok |-> TRUE, invs |-> <<>>]
    ELSE LET d == DelDown(saved[cid], Len(saved[cid]), F) IN
         [saved |-> IF Len(d.failed) > 0 THEN (cid :> d.failed) @@ saved
                    ELSE [c \in (DOMAIN saved) \ {cid} |-> saved[c]],
          ok |-> Len(d.failed) = 0, invs |-> d.invs]

DefaultsAB == <<"neta", "netb">>
Cids == {"c1", "c2"}
FailSets == {F \in SUBSET (Nets \X {"ADD", "DEL"}) : Cardinality(F) <= MaxFail}
Reqs == {[cmd |-> c, cid |-> k, fail |-> F] : c \in {"ADD", "DEL"}, k \in Cids, F \in FailSets}
ReqSeqs == UNION {[1..n -> Reqs] : n \in 1..MaxReq}

RECURSIVE Run(_, _, _, _)
Run(saved, podOf, reqs, i) ==
    IF i > Len(reqs) THEN <<>>
    ELSE LET r == reqs[i]
             o == IF r.cmd = "ADD" THEN Add(saved, r.cid, podOf[r.cid], r.fail) ELSE Del(saved, r.cid, r.fail) IN
         <<[ok |-> o.ok, invs |-> o.invs, saved |-> IF r.cid \in DOMAIN o.saved THEN [k \in 1..Len(o.saved[r.cid]) |-> o.saved[r.cid][k].net] ELSE <<>>]>>
            \o Run(o.saved, podOf, reqs, i + 1)

Scenario(p1, p2, reqs) ==
    [pods |-> [c1 |-> p1, c2 |-> p2],
     reqs |-> [i \in 1..Len(reqs) |-> [cmd |-> reqs[i].cmd, cid |-> reqs[i].cid, fail |-> {[net |-> x[1], cmd |-> x[2]] : x \in reqs[i].fail}]],
     expect |-> Run(<<>>, [c1 |-> p1, c2 |-> p2], reqs, 1)]

\* ---- laws on the specification: pairing, rollback, retry
\* (1) a successful ADD followed by a DEL without failures invokes the same networks in reverse and leaves nothing saved
PairLaw == \A p \in PodFamily :
    LET a == Add(<<>>, "c1", p, {})  d == Del(a.saved, "c1", {}) IN
    /\ a.ok /\ d.ok /\ "c1" \notin DOMAIN d.saved
    /\ Len(d.invs) = Len(a.invs)
    /\ \A i \in 1..Len(a.invs) : d.invs[Len(a.invs) + 1 - i].net = a.invs[i].net /\ d.invs[Len(a.invs) + 1 - i].ifn = a.invs[i].ifn
\* (2) a repeated DEL invokes nothing and succeeds
RepeatLaw == \A p \in PodFamily : LET a == Add(<<>>, "c1", p, {})  d == Del(a.saved, "c1", {})  d2 == Del(d.saved, "c1", {}) IN d2.ok /\ d2.invs = <<>>
\* (3) a DEL after failed DELs retries exactly the failed ones
RetryLaw == \A p \in PodFamily, F \in FailSets :
    LET a == Add(<<>>, "c1", p, {})  d == Del(a.saved, "c1", F)  d2 == Del(d.saved, "c1", {}) IN
    {d2.invs[i].net : i \in 1..Len(d2.invs)} = {n \in {a.invs[i].net : i \in 1..Len(a.invs)} : Fails(F, n, "DEL")}

Scenarios == {Scenario(p1, p2, r) : p1 \in PodFamily, p2 \in PodFamily, r \in ReqSeqs}
ASSUME PairLaw /\ RepeatLaw /\ RetryLaw
ASSUME JsonSerialize(OutFile, [defaults |-> Defaults, eni |-> ENINet, n |-> Cardinality(Scenarios), scenarios |-> Scenarios])
ASSUME PrintT(<<"SCENARIOS", Cardinality(Scenarios)>>)
VARIABLE x
Init == x = 0
Next == x' = x
=============================================================================
