------------------------------ MODULE MC_NetPol ------------------------------
(***************************************************************************)
(* Exhaustive design-level check of NetPol over a small universe: every    *)
(* cluster of two pods (namespace, label, local or remote) and one policy   *)
(* (namespace, selector, policyTypes, at most one ingress and one egress    *)
(* rule built from every peer form and port form) is one initial state;     *)
(* there are no transitions.  TLC checks on each of them, for all flows:    *)
(*   DesignRight          galaxy's compilation scheme without its named     *)
(*                        departures gives exactly the API verdict          *)
(*   DeparturesClassified wherever the scheme as it is (AllDevs) differs    *)
(*                        from the API, one of the named classes explains   *)
(*   DerivedWellFormed    the derived table references only chains and      *)
(*                        sets it derives                                   *)
(*   WalkIsDesign         walking the derived table = the design verdict    *)
(***************************************************************************)
EXTENDS NetPol

CONSTANTS Small      \* TRUE: both pods local, policyTypes empty or both (quick); FALSE: everything (thorough)

VARIABLES c, stage
Univ == [addrs |-> {"a1", "a2", "x1", "x2"},
         blocks |-> ("B0" :> {"a1", "a2", "x1", "x2"}) @@ ("B1" :> {"x1", "x2"}) @@ ("B1e" :> {"x2"}) @@ ("B2" :> {"a1", "a2"}),
         plen |-> ("B0" :> 0) @@ ("B1" :> 24) @@ ("B1e" :> 31) @@ ("B2" :> 24),
         unstorable |-> {"B0"}]
Nss == ("na" :> {"t=x"}) @@ ("nb" :> {"t=y"})
NoSel == [has |-> FALSE, labels |-> {}]
PodSels == {NoSel, [has |-> TRUE, labels |-> {}], [has |-> TRUE, labels |-> {"r=a"}]}
NsSels == {NoSel, [has |-> TRUE, labels |-> {"t=x"}]}
Peers == ({[pod |-> s, ns |-> n, block |-> "", except |-> {}] : s \in PodSels, n \in NsSels} \ {[pod |-> NoSel, ns |-> NoSel, block |-> "", except |-> {}]})
         \cup {[pod |-> NoSel, ns |-> NoSel, block |-> "B1", except |-> {}], [pod |-> NoSel, ns |-> NoSel, block |-> "B1", except |-> {"B1e"}],
               [pod |-> NoSel, ns |-> NoSel, block |-> "B0", except |-> {"B2"}]}
PortForms == IF Small THEN {<<>>, <<[proto |-> "tcp", port |-> "80"]>>}
             ELSE {<<>>, <<[proto |-> "tcp", port |-> "80"]>>, <<[proto |-> "udp", port |-> "53"], [proto |-> "tcp", port |-> "80"]>>}
PeerLists == {<<>>} \cup {<<p>> : p \in Peers}
             \cup (IF Small THEN {} ELSE {<<p, q>> : p \in {x \in Peers : x.block = "B1"}, q \in {x \in Peers : x.pod.has /\ ~x.ns.has}})
Rules == [ports : PortForms, peers : PeerLists]
RuleLists == {<<>>} \cup {<<r>> : r \in Rules}
TypesForms == IF Small THEN {{}, {"Ingress", "Egress"}} ELSE SUBSET {"Ingress", "Egress"}
Pods(i) == [name : {"p" \o i}, ns : {"na", "nb"}, labels : {{}, {"r=a"}}, ip : {"a" \o i}, local : IF Small THEN {TRUE} ELSE BOOLEAN]
Key(o) == o.name \o "_" \o o.ns
Pol0(ns, sel, types) == [name |-> "q1", ns |-> ns, sel |-> sel, types |-> types, ingress |-> <<>>, egress |-> <<>>]

\* the cluster is chosen in four stages so that TLC's workers share the enumeration
Init == /\ stage = 1
        /\ c \in {[nss |-> Nss, pods |-> (Key(p1) :> p1) @@ (Key(p2) :> p2), pols |-> [x \in {} |-> 0]] : p1 \in Pods("1"), p2 \in Pods("2")}
ThePol == c.pols[CHOOSE k \in DOMAIN c.pols : TRUE]
Next ==
    \/ /\ stage = 1 /\ stage' = 2
       /\ \E ns \in {"na", "nb"}, sel \in {{}, {"r=a"}}, ty \in TypesForms : c' = [c EXCEPT !.pols = (Key(Pol0(ns, sel, ty)) :> Pol0(ns, sel, ty))]
    \/ /\ stage = 2 /\ stage' = 3
       /\ \E rl \in RuleLists : c' = [c EXCEPT !.pols = (Key(ThePol) :> [ThePol EXCEPT !.ingress = rl])]
    \/ /\ stage = 3 /\ stage' = 4
       /\ \E rl \in RuleLists : c' = [c EXCEPT !.pols = (Key(ThePol) :> [ThePol EXCEPT !.egress = rl])]
Spec == Init /\ [][Next]_<<c, stage>>

FlowsM == {f \in [src : Univ.addrs, dst : Univ.addrs, proto : {"tcp", "udp"}, port : {"80", "53"}] : f.src # f.dst}

Final == stage = 4
DesignRight == Final => LET K == DesignKernel(c, Univ, {}) IN
               \A f \in FlowsM : NetLoss(c, Univ, f) = {} => DirectionalAllowsK(K, c, Univ, f, {}) = K8sAllows(c, Univ, f)
DeparturesClassified == Final => LET K == DesignKernel(c, Univ, AllDevs) IN
               \A f \in FlowsM : Walk(K, Univ, f) # K8sAllows(c, Univ, f) => Explains(c, Univ, f) # {}
DerivedWellFormed == Final =>
    LET D == Derived(c, Univ, AllDevs) IN
    \A n \in DOMAIN D.chains : \A i \in 1..Len(D.chains[n]) :
        LET r == D.chains[n][i] IN
        /\ r.target \in {"ACCEPT", "DROP"} \/ r.target \in DOMAIN D.chains
        /\ \A j \in 1..Len(r.sets) : r.sets[j].set \in DOMAIN D.sets
\* the fixed departures stay fixed in the design: with them switched on the scheme differs from the API on some cluster
\* (sanity of the switches; evaluated as a property that must FAIL is not possible, so it is an ASSUME-style witness below)
=============================================================================
