------------------------------- MODULE NetPol -------------------------------
(***************************************************************************)
(* galaxy's network-policy manager (pkg/policy).                            *)
(*                                                                          *)
(*  1. K8sAllows      the Kubernetes NetworkPolicy semantics of a new       *)
(*                    connection, written from the API documentation;       *)
(*  2. Derived        galaxy's compilation scheme: which ipsets, policy     *)
(*                    chains, pod chains and dispatch rules belong to a     *)
(*                    cluster state (doc/network-policy.md, the GLX-*       *)
(*                    naming); the places where the scheme departs from     *)
(*                    the API semantics are switches (Devs) so that every   *)
(*                    departure is a named, separately reportable class;    *)
(*  3. Walk           the verdict of the filter table for a packet: first   *)
(*                    matching rule, jumps, returns, ipset matches with     *)
(*                    most-specific-prefix / nomatch semantics.             *)
(*                                                                          *)
(* C15 compares what the real code left in the (strict, in-memory) kernel   *)
(* with Derived; C16 compares Walk over the real code's kernel state with   *)
(* K8sAllows for every flow of the universe.                                *)
(*                                                                          *)
(* Values:  U = [addrs, blocks: name -> set of addrs, plen: name -> Nat,    *)
(*               unstorable: set of block names]                            *)
(*          c = [nss: ns -> labels, pods: key -> [name, ns, labels, ip,     *)
(*               local], pols: key -> [name, ns, sel, types, ingress,       *)
(*               egress]];  rule = [ports: Seq([proto, port]), peers: Seq]  *)
(*          peer = [pod: [has, labels], ns: [has, labels], block, except]   *)
(*          K = [sets: name -> [type, members], chains: name -> Seq(rule)]  *)
(***************************************************************************)
EXTENDS Naturals, Sequences, FiniteSets, TLC

Range(s) == {s[i] : i \in 1..Len(s)}
Emp == [x \in {} |-> 0]

(* ------------------------------------------------------------------ Kubernetes semantics *)
HasIngress(pol) == "Ingress" \in pol.types \/ pol.types = {}
HasEgress(pol) == "Egress" \in pol.types \/ (pol.types = {} /\ Len(pol.egress) > 0)
Selected(c, q) == {p \in DOMAIN c.pods : c.pods[p].ns = c.pols[q].ns /\ c.pols[q].sel \subseteq c.pods[p].labels}
BlockAddrs(U, peer) == U.blocks[peer.block] \ UNION {U.blocks[e] : e \in peer.except}
\* the addresses a peer denotes (API semantics): podSelector alone -> the policy's namespace; namespaceSelector alone -> all
\* pods of the matching namespaces; both -> matching pods of matching namespaces; ipBlock -> cidr minus exceptions
PeerAddrs(c, U, peer, polNs) ==
    IF peer.block # "" THEN BlockAddrs(U, peer)
    ELSE LET nsset == IF peer.ns.has THEN {n \in DOMAIN c.nss : peer.ns.labels \subseteq c.nss[n]} ELSE {polNs}
             want == IF peer.pod.has THEN peer.pod.labels ELSE {}
         IN {c.pods[p].ip : p \in {x \in DOMAIN c.pods : c.pods[x].ns \in nsset /\ want \subseteq c.pods[x].labels /\ c.pods[x].ip # ""}}
PortOK(r, proto, port) == Len(r.ports) = 0 \/ \E j \in 1..Len(r.ports) : r.ports[j].proto = proto /\ r.ports[j].port = port
RuleAllows(c, U, r, polNs, other, proto, port) ==
    /\ Len(r.peers) = 0 \/ \E i \in 1..Len(r.peers) : other \in PeerAddrs(c, U, r.peers[i], polNs)
    /\ PortOK(r, proto, port)
IngressOK(c, U, pod, f) ==
    LET sel == {q \in DOMAIN c.pols : HasIngress(c.pols[q]) /\ pod \in Selected(c, q)} IN
    sel = {} \/ \E q \in sel : \E i \in 1..Len(c.pols[q].ingress) : RuleAllows(c, U, c.pols[q].ingress[i], c.pols[q].ns, f.src, f.proto, f.port)
EgressOK(c, U, pod, f) ==
    LET sel == {q \in DOMAIN c.pols : HasEgress(c.pols[q]) /\ pod \in Selected(c, q)} IN
    sel = {} \/ \E q \in sel : \E i \in 1..Len(c.pols[q].egress) : RuleAllows(c, U, c.pols[q].egress[i], c.pols[q].ns, f.dst, f.proto, f.port)
\* the node enforces for its own pods (those that have an address)
LocalAt(c, a) == {p \in DOMAIN c.pods : c.pods[p].local /\ c.pods[p].ip = a /\ a # ""}
K8sAllows(c, U, f) ==
    /\ \A p \in LocalAt(c, f.src) : EgressOK(c, U, p, f)
    /\ \A p \in LocalAt(c, f.dst) : IngressOK(c, U, p, f)

(* ------------------------------------------------------------------ galaxy's compilation scheme *)
\* departures of the scheme from the API semantics (each one a class of its own):
\* (two more switches exist below for departures the code no longer has -- repaired by a fix: commit --
\*  "podPeerClusterWide": a podSelector peer selects pods of every namespace, not of the policy's;
\*  "nsAndPodPeer": a peer with namespaceSelector and podSelector is treated as its podSelector alone;
\*  "emptyPeersDeny": a rule without peers (= any source/destination) compiles to no iptables rule.
\*  A change that brings one of them back makes the code depart from Derived: an unexplained violation.)
AllDevs == {            "sharedPolicyChain",      \* one chain per policy holds ingress and egress rules and is consulted for both directions
            "egressAcceptSkipsIngress"} \* an ACCEPT taken in the sender's (egress) chain ends the traversal: the receiver's ingress rules are not consulted
SetName(kind, i, q) == kind \o ":" \o ToString(i) \o ":" \o q
IpSetName(q) == "ip:" \o q
PlcyChain(q) == "plcy:" \o q
PodChain(p) == "podc:" \o p

PeerIsIP(peer) == peer.block = ""
\* the pod addresses a hash:ip peer contributes under the scheme
PeerIPs(c, peer, polNs, devs) ==
    LET nsAll == DOMAIN c.nss
        nsset == IF peer.pod.has /\ peer.ns.has
                   THEN (IF "nsAndPodPeer" \in devs THEN nsAll ELSE {n \in nsAll : peer.ns.labels \subseteq c.nss[n]})
                 ELSE IF peer.pod.has THEN (IF "podPeerClusterWide" \in devs THEN nsAll ELSE {polNs})
                 ELSE {n \in nsAll : peer.ns.labels \subseteq c.nss[n]}
        want == IF peer.pod.has THEN peer.pod.labels ELSE {}
    IN {c.pods[p].ip : p \in {x \in DOMAIN c.pods : c.pods[x].ns \in nsset /\ want \subseteq c.pods[x].labels /\ c.pods[x].ip # ""}}
\* members of the hash:net set of a rule: the blocks of its ipBlock peers in order, exceptions flagged nomatch; the same
\* network added twice keeps the flags of the last addition; networks the set type cannot store are missing
RECURSIVE NetMembers(_, _, _, _)
NetMembers(U, peers, i, acc) ==
    IF i > Len(peers) THEN acc
    ELSE IF peers[i].block = "" THEN NetMembers(U, peers, i + 1, acc)
    ELSE LET add(m, b, flag) == IF b \in U.unstorable THEN m ELSE [x \in (DOMAIN m) \cup {b} |-> IF x = b THEN flag ELSE m[x]]
             ex == peers[i].except
             m1 == add(acc, peers[i].block, FALSE)
             RECURSIVE AddAll(_, _)
             AddAll(m, S) == IF S = {} THEN m ELSE LET e == CHOOSE e \in S : TRUE IN AddAll(add(m, e, TRUE), S \ {e})
         IN NetMembers(U, peers, i + 1, AddAll(m1, ex))
NetSet(U, peers) == LET m == NetMembers(U, peers, 1, Emp) IN
                    [type |-> "net", members |-> {IF m[b] THEN b \o " nomatch" ELSE b : b \in DOMAIN m}]
IpSet(addrs) == [type |-> "ip", members |-> addrs]

TcpPorts(r) == SelectSeq(r.ports, LAMBDA x : x.proto = "tcp")
UdpPorts(r) == SelectSeq(r.ports, LAMBDA x : x.proto = "udp")
PortNums(ps) == [i \in 1..Len(ps) |-> ps[i].port]
R(src, dst, proto, sets, ports, ct, target) ==
    [src |-> src, dst |-> dst, proto |-> proto, sets |-> sets, ports |-> ports, ct |-> ct, target |-> target, opaque |-> FALSE]
SR(set, dir) == [set |-> set, dir |-> dir]
\* lines one (peer table, selected-pods table) pair compiles to
PairLines(r, sets) ==
    (IF Len(TcpPorts(r)) > 0 THEN <<R("", "", "tcp", sets, PortNums(TcpPorts(r)), FALSE, "ACCEPT")>> ELSE <<>>) \o
    (IF Len(UdpPorts(r)) > 0 THEN <<R("", "", "udp", sets, PortNums(UdpPorts(r)), FALSE, "ACCEPT")>> ELSE <<>>) \o
    (IF Len(r.ports) = 0 THEN <<R("", "", "all", sets, <<>>, FALSE, "ACCEPT")>> ELSE <<>>)
HasIPPeer(r) == \E i \in 1..Len(r.peers) : PeerIsIP(r.peers[i])
HasNetPeer(r) == \E i \in 1..Len(r.peers) : ~PeerIsIP(r.peers[i])
\* lines of rule number i (from 0) of policy q in direction dir ("in": peers are sources; "eg": peers are destinations)
RuleLines(q, i, r, dir, devs) ==
    LET own == IF dir = "in" THEN SR(IpSetName(q), "dst") ELSE SR(IpSetName(q), "src")
        ipn == SetName(IF dir = "in" THEN "sip" ELSE "dip", i, q)
        netn == SetName(IF dir = "in" THEN "snet" ELSE "dnet", i, q)
        pair(n) == IF dir = "in" THEN <<SR(n, "src"), own>> ELSE <<own, SR(n, "dst")>>
    IN (IF HasIPPeer(r) THEN PairLines(r, pair(ipn)) ELSE <<>>) \o
       (IF HasNetPeer(r) THEN PairLines(r, pair(netn)) ELSE <<>>) \o
       (IF Len(r.peers) = 0 /\ "emptyPeersDeny" \notin devs THEN PairLines(r, <<own>>) ELSE <<>>)
RECURSIVE Concat(_, _)
Concat(f, n) == IF n = 0 THEN <<>> ELSE Concat(f, n - 1) \o f[n]
PolicyLines(c, q, devs) ==
    LET pol == c.pols[q]
        inl == IF HasIngress(pol) THEN Concat([i \in 1..Len(pol.ingress) |-> RuleLines(q, i - 1, pol.ingress[i], "in", devs)], Len(pol.ingress)) ELSE <<>>
        egl == IF HasEgress(pol) THEN Concat([i \in 1..Len(pol.egress) |-> RuleLines(q, i - 1, pol.egress[i], "eg", devs)], Len(pol.egress)) ELSE <<>>
    IN inl \o egl
\* the ipsets of policy q
PolicySets(c, U, q, devs) ==
    LET pol == c.pols[q]
        own == (IpSetName(q) :> IpSet({c.pods[p].ip : p \in {x \in Selected(c, q) : c.pods[x].ip # ""}}))
        one(kindIP, kindNet, i, r) ==
            (IF HasIPPeer(r) THEN (SetName(kindIP, i, q) :> IpSet(UNION {PeerIPs(c, r.peers[j], pol.ns, devs) : j \in {k \in 1..Len(r.peers) : PeerIsIP(r.peers[k])}})) ELSE Emp)
            @@ (IF HasNetPeer(r) THEN (SetName(kindNet, i, q) :> NetSet(U, r.peers)) ELSE Emp)
        RECURSIVE All(_, _, _, _)
        All(rules, kindIP, kindNet, n) == IF n = 0 THEN Emp ELSE All(rules, kindIP, kindNet, n - 1) @@ one(kindIP, kindNet, n - 1, rules[n])
    IN own @@ (IF HasIngress(pol) THEN All(pol.ingress, "sip", "snet", Len(pol.ingress)) ELSE Emp)
           @@ (IF HasEgress(pol) THEN All(pol.egress, "dip", "dnet", Len(pol.egress)) ELSE Emp)
RECURSIVE MergeAll(_, _)
MergeAll(f, S) == IF S = {} THEN Emp ELSE LET x == CHOOSE x \in S : TRUE IN f[x] @@ MergeAll(f, S \ {x})

\* pods of this node and the policies that select them
LocalPods(c) == {p \in DOMAIN c.pods : c.pods[p].local}
InPols(c, p) == {q \in DOMAIN c.pols : HasIngress(c.pols[q]) /\ p \in Selected(c, q)}
EgPols(c, p) == {q \in DOMAIN c.pols : HasEgress(c.pols[q]) /\ p \in Selected(c, q)}
Chained(c) == {p \in LocalPods(c) : c.pods[p].ip # "" /\ InPols(c, p) \cup EgPols(c, p) # {}}
\* the pod chain: established connections, one jump per selecting policy (in any order), DROP
PodChainRules(c, p, order) ==
    <<R("", "", "all", <<>>, <<>>, TRUE, "ACCEPT")>> \o [i \in 1..Len(order) |-> R("", "", "all", <<>>, <<>>, FALSE, PlcyChain(order[i]))]
    \o <<R("", "", "all", <<>>, <<>>, FALSE, "DROP")>>
RECURSIVE SeqOf(_)
SeqOf(S) == IF S = {} THEN <<>> ELSE LET x == CHOOSE x \in S : TRUE IN <<x>> \o SeqOf(S \ {x})

\* galaxy-owned part of the kernel state that belongs to cluster c (rule order inside chains is not part of it: see Bag)
Derived(c, U, devs) ==
    [sets |-> MergeAll([q \in DOMAIN c.pols |-> PolicySets(c, U, q, devs)], DOMAIN c.pols),
     chains |-> [n \in {PlcyChain(q) : q \in DOMAIN c.pols} |-> PolicyLines(c, CHOOSE q \in DOMAIN c.pols : PlcyChain(q) = n, devs)]
                @@ [n \in {PodChain(p) : p \in Chained(c)} |->
                       LET p == CHOOSE p \in Chained(c) : PodChain(p) = n IN PodChainRules(c, p, SeqOf(InPols(c, p) \cup EgPols(c, p)))]
                @@ ("ingress" :> SeqOf({R("", c.pods[p].ip, "all", <<>>, <<>>, FALSE, PodChain(p)) : p \in {x \in Chained(c) : InPols(c, x) # {}}}))
                @@ ("egress" :> SeqOf({R(c.pods[p].ip, "", "all", <<>>, <<>>, FALSE, PodChain(p)) : p \in {x \in Chained(c) : EgPols(c, x) # {}}}))]

(* ------------------------------------------------------------------ ownership *)
Prefixed(s, pre) == Len(s) >= Len(pre) /\ SubSeq(s, 1, Len(pre)) = pre
\* names galaxy owns: everything the projection recognised as GLX-* (known objects, or "glx?:" for unexplained ones)
OwnedName(n) == n \in {"ingress", "egress"} \/ \E pre \in {"plcy:", "podc:", "ip:", "sip:", "snet:", "dip:", "dnet:", "glx?:"} : Prefixed(n, pre)
Builtins == {"INPUT", "FORWARD", "OUTPUT"}
OwnedSets(K) == [n \in {x \in DOMAIN K.sets : OwnedName(x)} |-> K.sets[n]]
OwnedChains(K) == [n \in {x \in DOMAIN K.chains : OwnedName(x)} |-> K.chains[n]]
\* foreign: sets and chains with other names, and the rules of the built-in chains that do not jump to galaxy's chains
ForeignPart(K) ==
    [sets |-> [n \in {x \in DOMAIN K.sets : ~OwnedName(x)} |-> K.sets[n]],
     chains |-> [n \in {x \in DOMAIN K.chains : ~OwnedName(x)} |->
                   IF n \in Builtins THEN SelectSeq(K.chains[n], LAMBDA r : ~OwnedName(r.target)) ELSE K.chains[n]]]

\* chains are compared as bags of rules, sets' member lists as sets
BagOf(s) == [r \in Range(s) |-> Cardinality({i \in 1..Len(s) : s[i] = r})]
NormSets(S) == [n \in DOMAIN S |-> [type |-> S[n].type, members |-> S[n].members]]
\* infrastructure that is not derived from policies and pods: the two dispatch chains and the hooks into the built-in
\* chains may be present (possibly empty) whenever galaxy has ever needed them
SameOwned(K, D) ==
    LET kc == OwnedChains(K)
        names == (DOMAIN kc) \ {"ingress", "egress"}
        dnames == (DOMAIN D.chains) \ {"ingress", "egress"}
        disp(n) == IF n \in DOMAIN kc THEN BagOf(kc[n]) ELSE BagOf(<<>>) IN
    /\ NormSets(OwnedSets(K)) = NormSets(D.sets)
    /\ names = dnames
    /\ \A n \in names : BagOf(kc[n]) = BagOf(D.chains[n])
    /\ disp("ingress") = BagOf(D.chains["ingress"]) /\ disp("egress") = BagOf(D.chains["egress"])
    \* pod chains start with the established-connections rule and end with DROP
    /\ \A n \in names : Prefixed(n, "podc:") => (kc[n][1].ct /\ kc[n][Len(kc[n])].target = "DROP")
    \* whenever something is dispatched, the hooks are in place, egress before ingress in FORWARD
    /\ (D.chains["ingress"] # <<>> \/ D.chains["egress"] # <<>>) =>
          LET jumps(b) == SelectSeq([i \in 1..Len(K.chains[b]) |-> K.chains[b][i].target], LAMBDA t : t \in {"ingress", "egress"}) IN
          /\ jumps("FORWARD") = <<"egress", "ingress">> /\ jumps("OUTPUT") = <<"ingress">> /\ jumps("INPUT") = <<"egress">>
\* what differs (diagnostics)
OwnedDiff(K, D) ==
    LET kc == OwnedChains(K)  ks == NormSets(OwnedSets(K))  ds == NormSets(D.sets) IN
    [sets_extra |-> (DOMAIN ks) \ (DOMAIN ds), sets_missing |-> (DOMAIN ds) \ (DOMAIN ks),
     sets_differ |-> {n \in (DOMAIN ks) \cap (DOMAIN ds) : ks[n] # ds[n]},
     chains_extra |-> ((DOMAIN kc) \ (DOMAIN D.chains)) \ {"ingress", "egress"}, chains_missing |-> (DOMAIN D.chains) \ ((DOMAIN kc) \cup {"ingress", "egress"}),
     chains_differ |-> {n \in (DOMAIN kc) \cap (DOMAIN D.chains) : BagOf(kc[n]) # BagOf(D.chains[n])}]

(* ------------------------------------------------------------------ the verdict of the filter table *)
InNet(U, s, a) ==
    LET hits == {m \in s.members : \E b \in DOMAIN U.blocks : (m = b \/ m = b \o " nomatch") /\ a \in U.blocks[b]}
        blk(m) == CHOOSE b \in DOMAIN U.blocks : m = b \/ m = b \o " nomatch"
        flag(m) == m # blk(m) IN
    hits # {} /\ LET best == CHOOSE m \in hits : \A o \in hits : U.plen[blk(m)] >= U.plen[blk(o)] IN ~flag(best)
SetMatches(K, U, sr, f) ==
    LET a == IF sr.dir = "src" THEN f.src ELSE f.dst IN
    sr.set \in DOMAIN K.sets /\ (IF K.sets[sr.set].type = "ip" THEN a \in K.sets[sr.set].members ELSE InNet(U, K.sets[sr.set], a))
RuleMatches(K, U, r, f) ==
    /\ ~r.ct /\ ~r.opaque               \* a NEW connection; matches the model does not understand never match the universe's flows
    /\ r.src = "" \/ r.src = f.src
    /\ r.dst = "" \/ r.dst = f.dst
    /\ r.proto = "all" \/ r.proto = f.proto
    /\ \A i \in 1..Len(r.sets) : SetMatches(K, U, r.sets[i], f)
    /\ Len(r.ports) = 0 \/ f.port \in Range(r.ports)
\* "ACCEPT" / "DROP" / "RETURN" (end of chain); depth bounds the recursion (no loops in a well-formed table)
RECURSIVE WalkFrom(_, _, _, _, _, _)
WalkFrom(K, U, f, ch, i, depth) ==
    IF depth = 0 \/ ch \notin DOMAIN K.chains \/ i > Len(K.chains[ch]) THEN "RETURN"
    ELSE LET r == K.chains[ch][i] IN
         IF ~RuleMatches(K, U, r, f) THEN WalkFrom(K, U, f, ch, i + 1, depth)
         ELSE IF r.target \in {"ACCEPT", "DROP"} THEN r.target
         ELSE IF r.target = "RETURN" THEN "RETURN"
         ELSE LET v == WalkFrom(K, U, f, r.target, 1, depth - 1) IN
              IF v = "RETURN" THEN WalkFrom(K, U, f, ch, i + 1, depth) ELSE v
\* pod traffic is forwarded traffic; the built-in chain's policy is ACCEPT
Walk(K, U, f) == WalkFrom(K, U, f, "FORWARD", 1, 6) # "DROP"

\* the verdict galaxy's own design gives: the dispatch and pod chains it derives, hooked into FORWARD
DesignKernel(c, U, devs) ==
    LET D == Derived(c, U, devs) IN
    [sets |-> D.sets, chains |-> D.chains @@ ("FORWARD" :> <<R("", "", "all", <<>>, <<>>, FALSE, "egress"), R("", "", "all", <<>>, <<>>, FALSE, "ingress")>>)]
\* the same design with the two structural departures repaired: each direction consults only its own rules, and both the
\* sender's and the receiver's chains are consulted
\* (K is DesignKernel(c, U, devs), passed in so that callers evaluating many flows compute it once)
DirectionalAllowsK(K, c, U, f, devs) ==
    LET lineOK(line) == RuleMatches(K, U, line, f)
        polOK(q, dir) == LET pol == c.pols[q]
                             rules == IF dir = "in" THEN pol.ingress ELSE pol.egress IN
                         \E i \in 1..Len(rules) : \E j \in 1..Len(RuleLines(q, i - 1, rules[i], dir, devs)) : lineOK(RuleLines(q, i - 1, rules[i], dir, devs)[j])
        egOK == \A p \in LocalAt(c, f.src) : EgPols(c, p) = {} \/ \E q \in EgPols(c, p) : polOK(q, "eg")
        inOK == \A p \in LocalAt(c, f.dst) : InPols(c, p) = {} \/ \E q \in InPols(c, p) : polOK(q, "in")
    IN egOK /\ inOK
DirectionalAllows(c, U, f, devs) == DirectionalAllowsK(DesignKernel(c, U, devs), c, U, f, devs)
\* verdict of the design with the departures in devs
DesignAllowsK(K, c, U, f, devs) ==
    IF {"sharedPolicyChain", "egressAcceptSkipsIngress"} \subseteq devs THEN Walk(K, U, f)
    ELSE DirectionalAllowsK(K, c, U, f, devs)
DesignAllows(c, U, f, devs) == DesignAllowsK(DesignKernel(c, U, devs), c, U, f, devs)
\* the classes of departure that explain why the design's verdict for f differs from the API's: removing the class alone
\* (or the two structural ones together) restores the API verdict
Structural == {"sharedPolicyChain", "egressAcceptSkipsIngress"}
\* two more departures, which live in the hash:net set of a rule rather than in the shape of the chains:
\*   mergedIpBlockExceptions  the ipBlock peers of one rule share one set, so the exceptions of one peer also remove addresses
\*                            that another peer of the same rule allows
\*   zeroPrefixBlock          a block of prefix length 0 cannot be stored in a hash:net set and is silently missing
\* A flow is touched by them if, for some rule of a policy selecting one of its local end points, the API semantics put the
\* other end into the rule's blocks while the rule's set does not match it.
NetLoss(c, U, f) ==
    LET ends == {<<p, "in", f.src>> : p \in LocalAt(c, f.dst)} \cup {<<p, "eg", f.dst>> : p \in LocalAt(c, f.src)}
        lossOf(r, other) ==
            LET bp == {j \in 1..Len(r.peers) : r.peers[j].block # ""} IN
            IF bp # {} /\ other \in UNION {BlockAddrs(U, r.peers[j]) : j \in bp} /\ ~InNet(U, NetSet(U, r.peers), other)
              THEN (IF \E j \in bp : r.peers[j].block \in U.unstorable /\ other \in BlockAddrs(U, r.peers[j]) THEN {"zeroPrefixBlock"} ELSE {})
                   \cup (IF Cardinality(bp) >= 2 THEN {"mergedIpBlockExceptions"} ELSE {})
              ELSE {}
    IN UNION {UNION {LET pol == c.pols[q]
                         rules == IF x[2] = "in" THEN pol.ingress ELSE pol.egress IN
                     UNION {lossOf(rules[i], x[3]) : i \in 1..Len(rules)}
                    : q \in (IF x[2] = "in" THEN InPols(c, x[1]) ELSE EgPols(c, x[1]))}
              : x \in ends}
Explains(c, U, f) ==
    LET want == K8sAllows(c, U, f)
        one == {d \in AllDevs \ Structural : DesignAllows(c, U, f, AllDevs \ {d}) = want}
               \cup (IF DesignAllows(c, U, f, AllDevs \ Structural) = want THEN {"sharedChainOrEgressAccept"} ELSE {})
    IN IF one # {} THEN one ELSE NetLoss(c, U, f)
=============================================================================
