--------------------------- MODULE Trace_GalaxyIPAM ---------------------------
(***************************************************************************)
(* Validates traces recorded from the real galaxy-ipam plugin (ipamdrive)   *)
(* against GalaxyIPAM: every line is one driver action (environment step,   *)
(* start of an operation, or one SEGMENT of an operation = one interposed   *)
(* call with its arguments and result) plus the changed parts of the        *)
(* projected state.                                                          *)
(*   conformance: the logged result, the NEXT call the operation parks in   *)
(*     front of (name and arguments) and the logged state must be one of    *)
(*     the successors StepOutcomes/Start.../environment operators allow;    *)
(*     otherwise the line is recorded in `div`, the state is re-synchronised *)
(*     on the log and the operation is dropped from the model;              *)
(*   properties: the C01-C04, C07, C10 (and C05/C08/C09) predicates are      *)
(*     evaluated on EVERY observed state/step and recorded in `viol`.       *)
(***************************************************************************)
EXTENDS GalaxyIPAM, Json

CONSTANT TraceFile
Trace == ndJsonDeserialize(TraceFile)

VARIABLES l, tid, lastlog, viol, div, stats, ghost
tvars == <<l, tid, lastlog, viol, div, stats, ghost>>
allvars == <<vars, cfgVars, tvars>>

TrIPSeq == <<"ip1", "ip2", "ip3", "ip4", "ip5", "ip6", "ip7", "ip8">>
Has(e, f) == f \in DOMAIN e
ToSet(s) == {s[i] : i \in 1..Len(s)}

(* ---------------------------------------------------------------- log -> model values *)
StateKeys == {"mem", "store", "pools", "cm", "alive", "pods", "lpods", "pevq", "work", "fev", "sts", "dp", "poolobj",
              "cloud", "podlocks", "dplocks", "ops"}
PoolsOfLog(p) == [id \in DOMAIN p |-> [subnets |-> ToSet(p[id].subnets), ips |-> ToSet(p[id].ips)]]
Strip(m) == [ip \in DOMAIN m |-> [key |-> m[ip].key, policy |-> m[ip].policy, uid |-> m[ip].uid,
                                   node |-> m[ip].node, lab |-> m[ip].lab]]
MemOfLog(m) == [ip \in DOMAIN m |-> [key |-> m[ip].key, policy |-> m[ip].policy, uid |-> m[ip].uid,
                                      node |-> m[ip].node, lab |-> m[ip].lab, ts |-> m[ip].ts]]
StoreOfLog(s, m) == [ip \in DOMAIN s |-> [key |-> s[ip].key, policy |-> s[ip].policy, uid |-> s[ip].uid,
                                           node |-> s[ip].node, lab |-> s[ip].lab,
                                           ts |-> IF ip \in DOMAIN m THEN m[ip].ts ELSE 0]]
RangesOfLog(r) == [i \in 1..Len(r) |-> ToSet(r[i])]
PodOfLog(p) == [name |-> p.name, kind |-> p.kind, app |-> p.app, pool |-> p.pool, policy |-> p.policy,
                ranges |-> RangesOfLog(p.ranges), uid |-> p.uid, phase |-> p.phase, node |-> p.node, ann |-> p.ann]
PodsOfLog(ps) == [n \in DOMAIN ps |-> PodOfLog(ps[n])]
EvOfLog(x) == [type |-> x.type, old |-> IF Has(x, "old") THEN PodOfLog(x.old) ELSE NoPod, new |-> PodOfLog(x.new)]
PevqOfLog(q) == [i \in 1..Len(q) |-> EvOfLog(q[i])]
WorkOfLog(q) == [i \in 1..Len(q) |-> [pod |-> PodOfLog(q[i].pod), retry |-> q[i].retry]]
FevOfLog(f) == [i \in 1..Len(f) |-> [type |-> f[i].type, ip |-> f[i].ip]]
DpLocksOfLog(q) == [k \in {q[i].key : i \in 1..Len(q)} |-> q[CHOOSE i \in 1..Len(q) : q[i].key = k].op]
SpecsOfLog(sp) == [n \in DOMAIN sp |-> [kind |-> sp[n].kind, app |-> sp[n].app, pool |-> sp[n].pool,
                                        policy |-> sp[n].policy, ranges |-> RangesOfLog(sp[n].ranges)]]
AttrOfLog(a) == [policy |-> a.policy, uid |-> a.uid, node |-> a.node]

\* the value the log gives to state key k at the current line
Exp(e, k) == IF Has(e, k) THEN e[k] ELSE lastlog[k]

(* ---------------------------------------------------------------- comparing a proposed world with the log *)
ToNat(s) == CHOOSE n \in 0..400 : ToString(n) = s
OpsSummary(w) == [id \in DOMAIN w.ops |-> [typ |-> w.ops[id].type, next |-> Call(w.ops[id]).name]]
OpsOfLog(x) == [id \in {ToNat(s) : s \in DOMAIN x} |-> LET s == CHOOSE t \in DOMAIN x : ToNat(t) = id IN
                                                          [typ |-> x[s].typ, next |-> x[s].next]]
PodLocksOfLog(x) == [k \in DOMAIN x |-> x[k]]

Same(w, e) ==
    /\ Strip(w.mem) = Strip(Exp(e, "mem"))
    /\ Strip(w.store) = Exp(e, "store")
    /\ w.pools = PoolsOfLog(Exp(e, "pools"))
    /\ w.cm = Exp(e, "cm") /\ w.alive = Exp(e, "alive")
    /\ w.pods = PodsOfLog(Exp(e, "pods"))
    /\ w.lpods = PodsOfLog(Exp(e, "lpods"))
    /\ w.pevq = PevqOfLog(Exp(e, "pevq"))
    /\ w.work = WorkOfLog(Exp(e, "work"))
    /\ w.fev = FevOfLog(Exp(e, "fev"))
    /\ w.sts = Exp(e, "sts") /\ w.dp = Exp(e, "dp")
    /\ w.poolobj = Exp(e, "poolobj")
    /\ w.cloud = Exp(e, "cloud")
    /\ w.podlock = PodLocksOfLog(Exp(e, "podlocks"))
    /\ w.dplock = DpLocksOfLog(Exp(e, "dplocks"))

\* which component differs (for diagnostics)
Diff(w, e) ==
    {k \in {"mem", "store", "pools", "cm", "alive", "pods", "lpods", "pevq", "work", "fev", "sts", "dp", "poolobj", "cloud", "podlock", "dplock"} :
       CASE k = "mem" -> Strip(w.mem) # Strip(Exp(e, "mem"))
         [] k = "store" -> Strip(w.store) # Exp(e, "store")
         [] k = "pools" -> w.pools # PoolsOfLog(Exp(e, "pools"))
         [] k = "cm" -> w.cm # Exp(e, "cm")
         [] k = "alive" -> w.alive # Exp(e, "alive")
         [] k = "pods" -> w.pods # PodsOfLog(Exp(e, "pods"))
         [] k = "lpods" -> w.lpods # PodsOfLog(Exp(e, "lpods"))
         [] k = "pevq" -> w.pevq # PevqOfLog(Exp(e, "pevq"))
         [] k = "work" -> w.work # WorkOfLog(Exp(e, "work"))
         [] k = "fev" -> w.fev # FevOfLog(Exp(e, "fev"))
         [] k = "sts" -> w.sts # Exp(e, "sts")
         [] k = "dp" -> w.dp # Exp(e, "dp")
         [] k = "poolobj" -> w.poolobj # Exp(e, "poolobj")
         [] k = "cloud" -> w.cloud # Exp(e, "cloud")
         [] k = "podlock" -> w.podlock # PodLocksOfLog(Exp(e, "podlocks"))
         [] OTHER -> w.dplock # DpLocksOfLog(Exp(e, "dplocks"))}

(* ---- the logged pending call of the stepped operation, normalised to the model's argument shapes ---- *)
NormArgs(name, a) ==
    CASE name \in {"ByKeyAndIPRanges"} -> [key |-> a.key, ranges |-> RangesOfLog(a.ranges)]
      [] name = "NodeSubnetsByIPRanges" -> [ranges |-> RangesOfLog(a.ranges)]
      [] name = "AllocateMulti" -> [key |-> a.key, subnet |-> a.subnet, ranges |-> RangesOfLog(a.ranges), attr |-> AttrOfLog(a.attr)]
      [] name = "AllocateInSubnet" -> [key |-> a.key, subnet |-> a.subnet, attr |-> AttrOfLog(a.attr)]
      [] name = "AllocateInSubnetWithKey" -> [oldK |-> a.oldK, newK |-> a.newK, subnet |-> a.subnet, attr |-> AttrOfLog(a.attr)]
      [] name = "ReserveIP" -> [oldK |-> a.oldK, newK |-> a.newK, attr |-> AttrOfLog(a.attr)]
      [] name \in {"UpdateAttr", "AllocateSpecificIP"} -> [key |-> a.key, ip |-> a.ip, attr |-> AttrOfLog(a.attr)]
      [] OTHER -> a
NextMatches(w, id, e) ==
    IF e.next.call = "done" THEN id \notin DOMAIN w.ops
    ELSE /\ id \in DOMAIN w.ops
         /\ LET c == Call(w.ops[id]) IN c.name = e.next.call /\ c.args = NormArgs(e.next.call, e.next.args)

Hint(e) == IF Has(e, "ret") /\ Has(e.ret, "ips") THEN [ips |-> e.ret.ips] ELSE [x |-> 0]

(* ---------------------------------------------------------------- proposed successor worlds per line *)
Proposed(e) ==
    CASE e.ev = "Step" ->
           IF alive /\ e.op \in DOMAIN ops /\ Call(ops[e.op]).name = e.call
             THEN {w \in StepOutcomes(e.op, e.f, Hint(e)) : NextMatches(w, e.op, e)}
             ELSE {}
      [] e.ev = "StartFilter" -> IF alive /\ e.pod \in DOMAIN pods THEN {w \in {StartFilterW(e.pod)} : NextMatches(w, e.op, e)} ELSE {}
      [] e.ev = "StartBind" -> IF alive /\ e.pod \in DOMAIN pods THEN {w \in {StartBindW(e.pod, e.node)} : NextMatches(w, e.op, e)} ELSE {}
      [] e.ev = "StartUnbind" -> IF alive /\ work # <<>> THEN {w \in {StartUnbindW} : NextMatches(w, e.op, e)} ELSE {}
      [] e.ev = "StartResync" -> IF alive THEN {w \in {StartResyncW} : NextMatches(w, e.op, e)} ELSE {}
      [] e.ev = "StartApiRelease" -> IF alive THEN {w \in {StartApiReleaseW(e.ip, e.key)} : NextMatches(w, e.op, e)} ELSE {}
      [] e.ev = "StartReload" -> IF alive THEN {w \in {StartReloadW} : NextMatches(w, e.op, e)} ELSE {}
      [] e.ev = "StartPoolUpsert" -> IF alive THEN {w \in {StartPoolUpsertW(e.pool, e.size, e.prealloc)} : NextMatches(w, e.op, e)} ELSE {}
      [] e.ev = "CreatePod" -> IF e.pod \notin DOMAIN pods THEN {CreatePodW(e.pod)} ELSE {}
      [] e.ev = "DeletePod" -> IF e.pod \in DOMAIN pods THEN {DeletePodW(e.pod)} ELSE {}
      [] e.ev = "FinishPod" -> IF e.pod \in DOMAIN pods THEN {SetPhaseW(e.pod, "Done")} ELSE {}
      [] e.ev = "KubeletRun" -> IF e.pod \in DOMAIN pods THEN {SetPhaseW(e.pod, "Running")} ELSE {}
      [] e.ev = "DeliverPod" -> IF pevq # <<>> THEN {w \in {DeliverPodW} : e.op = 0 \/ NextMatches(w, e.op, e)} ELSE {}
      [] e.ev = "ScaleSts" -> {[Cur EXCEPT !.sts = Put(sts, e.app, e.replicas)]}
      [] e.ev = "DeleteSts" -> {[Cur EXCEPT !.sts = IF e.app \in DOMAIN sts THEN Del(sts, e.app) ELSE sts]}
      [] e.ev = "ScaleDp" -> {[Cur EXCEPT !.dp = Put(dp, e.app, e.replicas)]}
      [] e.ev = "DeleteDp" -> {[Cur EXCEPT !.dp = IF e.app \in DOMAIN dp THEN Del(dp, e.app) ELSE dp]}
      [] e.ev = "AdminReserve" ->
           IF e.ip \notin DOMAIN store
             THEN {[Cur EXCEPT !.store = Put(store, e.ip, [key |-> [pool |-> "adm", kind |-> "", app |-> "", pod |-> ""], policy |-> 2, uid |-> "", node |-> "", lab |-> TRUE, ts |-> clock]),
                               !.fev = IF alive THEN Append(fev, [type |-> "add", ip |-> e.ip]) ELSE fev]}
             ELSE {}
      [] e.ev = "AdminUnreserve" ->
           IF e.ip \in DOMAIN store /\ store[e.ip].lab
             THEN {[Cur EXCEPT !.store = Del(store, e.ip), !.fev = IF alive THEN Append(fev, [type |-> "del", ip |-> e.ip]) ELSE fev]}
             ELSE {}
      [] e.ev = "DeliverFev" ->
           IF alive /\ fev # <<>>
             THEN LET h == Head(fev) IN
                  {[Cur EXCEPT !.fev = Tail(fev), !.clock = clock + 1,
                               !.mem = IF h.type = "add" THEN HandleFIPAssign(mem, h.ip, [pool |-> "adm", kind |-> "", app |-> "", pod |-> ""], 2, clock)
                                       ELSE HandleFIPUnassign(mem, h.ip)]}
             ELSE {}
      [] e.ev = "ChangeConfig" -> {[Cur EXCEPT !.cm = e.conf]}
      [] e.ev = "Crash" -> {CrashW}
      [] e.ev = "Restart" -> IF ~alive THEN {RestartW} ELSE {}
      [] e.ev = "Quiesce" -> {Cur}
      [] OTHER -> {}

(* ---------------------------------------------------------------- re-synchronisation on the log *)
FromLog(e) ==
    LET m == MemOfLog(Exp(e, "mem")) IN
    [Cur EXCEPT !.mem = m, !.store = StoreOfLog(Exp(e, "store"), Exp(e, "mem")), !.pools = PoolsOfLog(Exp(e, "pools")),
                !.cm = Exp(e, "cm"), !.alive = Exp(e, "alive"), !.pods = PodsOfLog(Exp(e, "pods")),
                !.lpods = PodsOfLog(Exp(e, "lpods")), !.pevq = PevqOfLog(Exp(e, "pevq")), !.work = WorkOfLog(Exp(e, "work")),
                !.fev = FevOfLog(Exp(e, "fev")), !.sts = Exp(e, "sts"), !.dp = Exp(e, "dp"), !.poolobj = Exp(e, "poolobj"),
                !.cloud = Exp(e, "cloud"), !.podlock = PodLocksOfLog(Exp(e, "podlocks")), !.dplock = DpLocksOfLog(Exp(e, "dplocks")),
                !.clock = clock + 1,
                \* operations the model can no longer follow are dropped; later lines of theirs are skipped
                !.ops = IF ~Exp(e, "alive") THEN Emp
                        ELSE IF Has(e, "op") /\ e.op \in DOMAIN ops THEN [x \in (DOMAIN ops) \ {e.op} |-> ops[x]] ELSE ops,
                !.ctr = IF e.ev \in {"StartFilter", "StartBind", "StartUnbind", "StartResync", "StartApiRelease", "StartReload", "StartPoolUpsert"}
                          THEN [ctr EXCEPT !.op = e.op + 1]
                        ELSE IF e.ev = "DeliverPod" /\ e.op # 0 THEN [ctr EXCEPT !.op = e.op + 1]
                        ELSE IF e.ev = "CreatePod" THEN [ctr EXCEPT !.uid = ctr.uid + 1] ELSE ctr]

(* ---------------------------------------------------------------- properties (filled by Props module section below) *)
\* a pod is "live" if it exists and has not finished
Live(ps) == {n \in DOMAIN ps : ps[n].phase # "Done"}
LiveBound(ps) == {n \in Live(ps) : ps[n].node # "" /\ Len(ps[n].ann) > 0}

StepViolations(e, w) ==
    LET V(name, bad) == IF bad THEN {[prop |-> name, line |-> l, trace |-> tid, ev |-> e.ev,
                                      call |-> IF Has(e, "call") THEN e.call ELSE "", typ |-> IF Has(e, "typ") THEN e.typ ELSE ""]} ELSE {}
        P == w.pods IN
    \* C01: no two live pods carry the same IP in their binding annotation
       V("LiveAnnotationsDisjoint",
         \E p \in Live(P), q \in Live(P) : p # q /\ ToSet(P[p].ann) \cap ToSet(P[q].ann) # {})
    \* C04: the IP of a live bound pod stays keyed to it (while it is configured)
    \cup V("LiveKeepsIP",
           w.alive /\ \E p \in LiveBound(P) : \E ip \in ToSet(P[p].ann) :
               ip \in DOMAIN w.mem /\ w.mem[ip].key # KeyOf(P[p]) /\
               \* it was keyed to it before this step: the step took it away
               ip \in DOMAIN mem /\ mem[ip].key = KeyOf(P[p]) /\ p \in DOMAIN pods /\ pods[p].uid = P[p].uid)
    \* C05: memory and store agree whenever no IPAM method is in flight (every line is such a moment)
    \cup V("MemStoreAgree", w.alive /\ ~MemStoreAgreeExcept(w.mem, w.store, {w.fev[i].ip : i \in 1..Len(w.fev)}))

Init ==
    /\ l = 1 /\ tid = 0 /\ lastlog = Emp /\ viol = {} /\ div = {} /\ ghost = Emp
    /\ stats = [events |-> 0, traces |-> 0, conform |-> 0, skipped |-> 0]
    /\ mem = Emp /\ store = Emp /\ pools = Emp /\ clock = 100 /\ pods = Emp /\ lpods = Emp /\ pevq = <<>> /\ work = <<>>
    /\ sts = Emp /\ dp = Emp /\ poolobj = Emp /\ cm = 1 /\ cloud = Emp /\ ops = Emp /\ podlock = Emp /\ dplock = Emp
    /\ nscache = Emp /\ fev = <<>> /\ alive = TRUE /\ loaded = 1 /\ filtered = Emp
    /\ ctr = [uid |-> 1, op |-> 1, inc |-> Emp]
    /\ Specs = Emp /\ NodeSub = Emp /\ Configs = <<>> /\ CloudOn = FALSE

UpdLast(e) == lastlog' = [k \in StateKeys |-> IF Has(e, k) THEN e[k] ELSE lastlog[k]]

Reset(e) ==
    /\ tid' = e.trace
    /\ Specs' = SpecsOfLog(e.specs) /\ NodeSub' = e.nodesub /\ CloudOn' = e.cloudOn
    /\ Configs' = [i \in 1..Len(e.configs) |-> PoolsOfLog(e.configs[i])]
    /\ mem' = MemOfLog(e.mem) /\ store' = StoreOfLog(e.store, e.mem) /\ pools' = PoolsOfLog(e.pools) /\ clock' = 100
    /\ pods' = PodsOfLog(e.pods) /\ lpods' = PodsOfLog(e.lpods) /\ pevq' = <<>> /\ work' = <<>>
    /\ sts' = e.sts /\ dp' = e.dp /\ poolobj' = e.poolobj /\ cm' = e.cm /\ cloud' = e.cloud
    /\ ops' = Emp /\ podlock' = Emp /\ dplock' = Emp /\ nscache' = Emp /\ fev' = <<>> /\ alive' = TRUE
    /\ loaded' = e.cm /\ filtered' = Emp /\ ctr' = [uid |-> 1, op |-> 1, inc |-> Emp]
    /\ lastlog' = [k \in StateKeys |-> e[k]]
    /\ viol' = viol /\ div' = div /\ ghost' = Emp
    /\ stats' = [stats EXCEPT !.traces = @ + 1, !.events = @ + 1]

Skippable(e) ==      \* lines of operations the model dropped after a divergence, or cut by a crash
    \/ e.ev = "Step" /\ e.op \notin DOMAIN ops
    \/ Has(e, "crashed")
    \/ e.ev \in {"Panic", "Hang"}

Event(e) ==
    LET good == {w \in Proposed(e) : Same(w, e)} IN
    /\ tid' = tid /\ UNCHANGED cfgVars /\ UpdLast(e) /\ ghost' = ghost
    /\ IF Skippable(e)
         THEN LET w == FromLog(e) IN
              /\ SetWorld(w) /\ div' = div
              /\ viol' = viol \cup StepViolations(e, w)
              /\ stats' = [stats EXCEPT !.events = @ + 1, !.skipped = @ + 1]
         ELSE IF good # {}
           THEN \E w \in good :
                  /\ SetWorld(w) /\ div' = div
                  /\ viol' = viol \cup StepViolations(e, w)
                  /\ stats' = [stats EXCEPT !.events = @ + 1, !.conform = @ + 1]
           ELSE LET w == FromLog(e) IN
                /\ SetWorld(w)
                /\ div' = div \cup {[line |-> l, trace |-> tid, ev |-> e.ev, call |-> IF Has(e, "call") THEN e.call ELSE "",
                                     typ |-> IF Has(e, "typ") THEN e.typ ELSE "",
                                     why |-> IF Proposed(e) = {} THEN {"noproposal"} ELSE UNION {Diff(x, e) : x \in Proposed(e)},
                                     model |-> IF Proposed(e) = {} THEN <<>> ELSE LET x == CHOOSE y \in Proposed(e) : TRUE IN
                                               [k \in Diff(x, e) |-> IF k = "mem" THEN Strip(x.mem) ELSE IF k = "store" THEN Strip(x.store) ELSE x[k]]]}
                /\ viol' = viol \cup StepViolations(e, w)
                /\ stats' = [stats EXCEPT !.events = @ + 1]

Next ==
    /\ l <= Len(Trace)
    /\ l' = l + 1
    /\ LET e == Trace[l] IN IF e.ev = "Reset" THEN Reset(e) ELSE Event(e)

Spec == Init /\ [][Next]_allvars

Report ==
    l <= Len(Trace) \/
    PrintT(<<"REPORT", ToJson([lines |-> Len(Trace), consumed |-> l - 1, viol |-> viol, div |-> div, stats |-> stats])>>)
=============================================================================
