--------------------------- MODULE Trace_GalaxyIPAM ---------------------------
(***************************************************************************)
(* Validates traces recorded from the real galaxy-ipam plugin (ipamdrive)   *)
(* against GalaxyIPAM: every line is one driver action (environment step,   *)
(* start of an operation, or one SEGMENT of an operation = one interposed   *)
(* call with its arguments and result) plus the changed parts of the        *)
(* projected state.                                                          *)
(*   conformance: the logged result, the NEXT call the operation parks in   *)
(*     front of (name and arguments) and the logged state must be one of    *)
(*     the successors StepOutcomes/Start.../environment operators allow;    *)
(*     otherwise the line is recorded in `div`, the state is re-synchronised *)
(*     on the log and the operation is dropped from the model;              *)
(*   properties: the C01-C04, C07, C10 (and C05/C08/C09) predicates are      *)
(*     evaluated on EVERY observed state/step and recorded in `viol`.       *)
(***************************************************************************)
EXTENDS GalaxyIPAM, Json

CONSTANT TraceFile
Trace == ndJsonDeserialize(TraceFile)

VARIABLES l, tid, lastlog, viol, div, stats, ghost
tvars == <<l, tid, lastlog, viol, div, stats, ghost>>
allvars == <<vars, cfgVars, tvars>>

TrIPSeq == <<"ip1", "ip2", "ip3", "ip4", "ip5", "ip6", "ip7", "ip8", "ip101", "ip102", "ip103">>
Has(e, f) == f \in DOMAIN e
ToSet(s) == {s[i] : i \in 1..Len(s)}
\* result of a finished operation (a panicking operation has neither field)
ResOk(e) == Has(e, "res") /\ Has(e.res, "ok") /\ e.res.ok
ResFail(e) == Has(e, "res") /\ Has(e.res, "ok") /\ ~e.res.ok
ResWait(e) == Has(e, "res") /\ Has(e.res, "wait") /\ e.res.wait

(* ---------------------------------------------------------------- log -> model values *)
StateKeys == {"mem", "store", "pools", "cm", "alive", "pods", "lpods", "pevq", "work", "fev", "sts", "dp", "poolobj",
              "cloud", "podlocks", "dplocks", "ops"}
\* info: what the binding annotation must carry with an IP of the pool (vlan, mask bits, gateway)
PoolsOfLog(p) == [id \in DOMAIN p |-> [subnets |-> ToSet(p[id].subnets), ips |-> ToSet(p[id].ips), info |-> p[id].info]]
Strip(m) == [ip \in DOMAIN m |-> [key |-> m[ip].key, policy |-> m[ip].policy, uid |-> m[ip].uid,
                                   node |-> m[ip].node, lab |-> m[ip].lab]]
MemOfLog(m) == [ip \in DOMAIN m |-> [key |-> m[ip].key, policy |-> m[ip].policy, uid |-> m[ip].uid,
                                      node |-> m[ip].node, lab |-> m[ip].lab, ts |-> m[ip].ts]]
StoreOfLog(s, m) == [ip \in DOMAIN s |-> [key |-> s[ip].key, policy |-> s[ip].policy, uid |-> s[ip].uid,
                                           node |-> s[ip].node, lab |-> s[ip].lab,
                                           ts |-> IF ip \in DOMAIN m THEN m[ip].ts ELSE 0]]
RangesOfLog(r) == [i \in 1..Len(r) |-> ToSet(r[i])]
PodOfLog(p) == [name |-> p.name, kind |-> p.kind, app |-> p.app, pool |-> p.pool, policy |-> p.policy,
                ranges |-> RangesOfLog(p.ranges), uid |-> p.uid, phase |-> p.phase, node |-> p.node, ann |-> p.ann]
PodsOfLog(ps) == [n \in DOMAIN ps |-> PodOfLog(ps[n])]
EvOfLog(x) == [type |-> x.type, old |-> IF Has(x, "old") THEN PodOfLog(x.old) ELSE NoPod, new |-> PodOfLog(x.new)]
PevqOfLog(q) == [i \in 1..Len(q) |-> EvOfLog(q[i])]
WorkOfLog(q) == [i \in 1..Len(q) |-> [pod |-> PodOfLog(q[i].pod), retry |-> q[i].retry]]
FevOfLog(f) == [i \in 1..Len(f) |-> [type |-> f[i].type, ip |-> f[i].ip]]
DpLocksOfLog(q) == [k \in {q[i].key : i \in 1..Len(q)} |-> q[CHOOSE i \in 1..Len(q) : q[i].key = k].op]
SpecsOfLog(sp) == [n \in DOMAIN sp |-> [kind |-> sp[n].kind, app |-> sp[n].app, pool |-> sp[n].pool,
                                        policy |-> sp[n].policy, ranges |-> RangesOfLog(sp[n].ranges)]]
AttrOfLog(a) == [policy |-> a.policy, uid |-> a.uid, node |-> a.node]

\* the value the log gives to state key k at the current line
Exp(e, k) == IF Has(e, k) THEN e[k] ELSE lastlog[k]

(* ---------------------------------------------------------------- comparing a proposed world with the log *)
ToNat(s) == CHOOSE n \in 0..400 : ToString(n) = s
OpsSummary(w) == [id \in DOMAIN w.ops |-> [typ |-> w.ops[id].type, next |-> Call(w.ops[id]).name]]
OpsOfLog(x) == [id \in {ToNat(s) : s \in DOMAIN x} |-> LET s == CHOOSE t \in DOMAIN x : ToNat(t) = id IN
                                                          [typ |-> x[s].typ, next |-> x[s].next]]
PodLocksOfLog(x) == [k \in DOMAIN x |-> x[k]]

Same(w, e) ==
    /\ Strip(w.mem) = Strip(Exp(e, "mem"))
    /\ Strip(w.store) = Exp(e, "store")
    /\ w.pools = PoolsOfLog(Exp(e, "pools"))
    /\ w.cm = Exp(e, "cm") /\ w.alive = Exp(e, "alive")
    /\ w.pods = PodsOfLog(Exp(e, "pods"))
    /\ w.lpods = PodsOfLog(Exp(e, "lpods"))
    /\ w.pevq = PevqOfLog(Exp(e, "pevq"))
    /\ w.work = WorkOfLog(Exp(e, "work"))
    /\ w.fev = FevOfLog(Exp(e, "fev"))
    /\ w.sts = Exp(e, "sts") /\ w.dp = Exp(e, "dp")
    /\ w.poolobj = Exp(e, "poolobj")
    /\ w.cloud = Exp(e, "cloud")
    /\ w.podlock = PodLocksOfLog(Exp(e, "podlocks"))
    /\ w.dplock = DpLocksOfLog(Exp(e, "dplocks"))

\* which component differs (for diagnostics)
Diff(w, e) ==
    {k \in {"mem", "store", "pools", "cm", "alive", "pods", "lpods", "pevq", "work", "fev", "sts", "dp", "poolobj", "cloud", "podlock", "dplock"} :
       CASE k = "mem" -> Strip(w.mem) # Strip(Exp(e, "mem"))
         [] k = "store" -> Strip(w.store) # Exp(e, "store")
         [] k = "pools" -> w.pools # PoolsOfLog(Exp(e, "pools"))
         [] k = "cm" -> w.cm # Exp(e, "cm")
         [] k = "alive" -> w.alive # Exp(e, "alive")
         [] k = "pods" -> w.pods # PodsOfLog(Exp(e, "pods"))
         [] k = "lpods" -> w.lpods # PodsOfLog(Exp(e, "lpods"))
         [] k = "pevq" -> w.pevq # PevqOfLog(Exp(e, "pevq"))
         [] k = "work" -> w.work # WorkOfLog(Exp(e, "work"))
         [] k = "fev" -> w.fev # FevOfLog(Exp(e, "fev"))
         [] k = "sts" -> w.sts # Exp(e, "sts")
         [] k = "dp" -> w.dp # Exp(e, "dp")
         [] k = "poolobj" -> w.poolobj # Exp(e, "poolobj")
         [] k = "cloud" -> w.cloud # Exp(e, "cloud")
         [] k = "podlock" -> w.podlock # PodLocksOfLog(Exp(e, "podlocks"))
         [] OTHER -> w.dplock # DpLocksOfLog(Exp(e, "dplocks"))}

(* ---- the logged pending call of the stepped operation, normalised to the model's argument shapes ---- *)
NormArgs(name, a) ==
    CASE name \in {"ByKeyAndIPRanges"} -> [key |-> a.key, ranges |-> RangesOfLog(a.ranges)]
      [] name = "NodeSubnetsByIPRanges" -> [ranges |-> RangesOfLog(a.ranges)]
      [] name = "AllocateMulti" -> [key |-> a.key, subnet |-> a.subnet, ranges |-> RangesOfLog(a.ranges), attr |-> AttrOfLog(a.attr)]
      [] name = "AllocateInSubnet" -> [key |-> a.key, subnet |-> a.subnet, attr |-> AttrOfLog(a.attr)]
      [] name = "AllocateInSubnetWithKey" -> [oldK |-> a.oldK, newK |-> a.newK, subnet |-> a.subnet, attr |-> AttrOfLog(a.attr)]
      [] name = "ReserveIP" -> [oldK |-> a.oldK, newK |-> a.newK, attr |-> AttrOfLog(a.attr)]
      [] name \in {"UpdateAttr", "AllocateSpecificIP"} -> [key |-> a.key, ip |-> a.ip, attr |-> AttrOfLog(a.attr)]
      [] name = "binding" -> [pod |-> a.pod, node |-> a.node, uid |-> a.uid, ann |-> a.ann]
      [] OTHER -> a
NextMatches(w, id, e) ==
    IF e.next.call = "done" THEN id \notin DOMAIN w.ops
    ELSE /\ id \in DOMAIN w.ops
         /\ LET c == Call(w.ops[id]) IN c.name = e.next.call /\ c.args = NormArgs(e.next.call, e.next.args)

\* the nodes a finished filter offered are those the model's filter offers
FilterResMatches(w, e) ==
    /\ (e.typ = "filter" /\ ResOk(e)) =>
          LET pn == ops[e.op].loc.podname IN pn \in DOMAIN w.filtered /\ w.filtered[pn].nodes = ToSet(e.res.nodes)
    \* preempt answers with the candidates it keeps (all of them when it could not compute the subnets)
    /\ (e.typ = "preempt" /\ Has(e, "res") /\ Has(e.res, "nodes")) =>
          LET pn == "preempt:" \o ops[e.op].loc.podname IN pn \in DOMAIN w.filtered /\ w.filtered[pn].nodes = ToSet(e.res.nodes)

Hint(e) == IF Has(e, "ret") /\ Has(e.ret, "ips") THEN [ips |-> e.ret.ips]
           ELSE IF Has(e, "ret") /\ Has(e.ret, "names") THEN [names |-> e.ret.names] ELSE [x |-> 0]

\* a new incarnation of a pod name may ask for other ranges than the previous one (the workload's template changed)
CreatePodWR(name, rr) ==
    LET w == CreatePodW(name)
        p == [w.pods[name] EXCEPT !.ranges = rr] IN
    [w EXCEPT !.pods = Put(pods, name, p), !.pevq = Append(pevq, PodEv("add", NoPod, p))]

(* ---------------------------------------------------------------- proposed successor worlds per line *)
Proposed(e) ==
    CASE e.ev = "Step" ->
           IF alive /\ e.op \in DOMAIN ops /\ Call(ops[e.op]).name = e.call
             THEN {w \in StepOutcomes(e.op, e.f, Hint(e)) : NextMatches(w, e.op, e) /\ FilterResMatches(w, e)}
             ELSE {}
      [] e.ev = "StartFilter" -> IF alive /\ e.pod \in DOMAIN pods THEN {w \in {StartFilterW(e.pod)} : NextMatches(w, e.op, e)} ELSE {}
      [] e.ev = "StartPreempt" -> IF alive /\ e.pod \in DOMAIN pods THEN {w \in {StartPreemptW(e.pod)} : NextMatches(w, e.op, e)} ELSE {}
      [] e.ev = "StartBind" -> IF alive /\ e.pod \in DOMAIN pods THEN {w \in {StartBindW(e.pod, e.node)} : NextMatches(w, e.op, e)} ELSE {}
      [] e.ev = "StartUnbind" -> IF alive /\ work # <<>> THEN {w \in {StartUnbindW} : NextMatches(w, e.op, e)} ELSE {}
      [] e.ev = "StartResync" -> IF alive THEN {w \in {StartResyncW} : NextMatches(w, e.op, e)} ELSE {}
      [] e.ev = "StartApiRelease" -> IF alive THEN {w \in {StartApiReleaseW(e.ip, e.key)} : NextMatches(w, e.op, e)} ELSE {}
      [] e.ev = "StartReload" -> IF alive THEN {w \in {StartReloadW} : NextMatches(w, e.op, e)} ELSE {}
      [] e.ev = "StartSyncAll" -> IF alive THEN {w \in {StartSyncAllW} : NextMatches(w, e.op, e)} ELSE {}
      [] e.ev = "StartPoolUpsert" -> IF alive THEN {w \in {StartPoolUpsertW(e.pool, e.size, e.prealloc)} : NextMatches(w, e.op, e)} ELSE {}
      [] e.ev = "CreatePod" -> IF e.pod \notin DOMAIN pods THEN {CreatePodWR(e.pod, RangesOfLog(e.ranges))} ELSE {}
      [] e.ev = "DeletePod" -> IF e.pod \in DOMAIN pods THEN {DeletePodW(e.pod)} ELSE {}
      [] e.ev = "FinishPod" -> IF e.pod \in DOMAIN pods THEN {SetPhaseW(e.pod, "Done")} ELSE {}
      [] e.ev = "KubeletRun" -> IF e.pod \in DOMAIN pods THEN {SetPhaseW(e.pod, "Running")} ELSE {}
      [] e.ev = "DeliverPod" -> IF pevq # <<>> THEN {w \in {DeliverPodW} : e.op = 0 \/ NextMatches(w, e.op, e)} ELSE {}
      \* the Pool object is deleted through the API (200 if it existed, 404 otherwise); nothing else changes
      [] e.ev = "DeletePool" -> IF (e.pool \in DOMAIN poolobj) = (e.code = 200) /\ (e.pool \in DOMAIN poolobj) = (e.getcode = 200)
                                  THEN {[Cur EXCEPT !.poolobj = IF e.pool \in DOMAIN poolobj THEN Del(poolobj, e.pool) ELSE poolobj]} ELSE {}
      [] e.ev = "ScaleSts" -> {[Cur EXCEPT !.sts = Put(sts, e.app, e.replicas)]}
      [] e.ev = "DeleteSts" -> {[Cur EXCEPT !.sts = IF e.app \in DOMAIN sts THEN Del(sts, e.app) ELSE sts]}
      [] e.ev = "ScaleDp" -> {[Cur EXCEPT !.dp = Put(dp, e.app, e.replicas)]}
      [] e.ev = "DeleteDp" -> {[Cur EXCEPT !.dp = IF e.app \in DOMAIN dp THEN Del(dp, e.app) ELSE dp]}
      [] e.ev = "AdminReserve" ->
           IF e.ip \notin DOMAIN store
             THEN {[Cur EXCEPT !.store = Put(store, e.ip, [key |-> [pool |-> "adm", kind |-> "", app |-> "", pod |-> ""], policy |-> 2, uid |-> "", node |-> "", lab |-> TRUE, ts |-> clock]),
                               !.fev = IF alive THEN Append(fev, [type |-> "add", ip |-> e.ip]) ELSE fev]}
             ELSE {}
      [] e.ev = "AdminUnreserve" ->
           IF e.ip \in DOMAIN store /\ store[e.ip].lab
             THEN {[Cur EXCEPT !.store = Del(store, e.ip), !.fev = IF alive THEN Append(fev, [type |-> "del", ip |-> e.ip]) ELSE fev]}
             ELSE {}
      [] e.ev = "DeliverFev" ->
           IF alive /\ fev # <<>>
             THEN LET h == Head(fev) IN
                  {[Cur EXCEPT !.fev = Tail(fev), !.clock = clock + 1,
                               !.mem = IF h.type = "add" THEN HandleFIPAssign(mem, h.ip, [pool |-> "adm", kind |-> "", app |-> "", pod |-> ""], 2, clock)
                                       ELSE HandleFIPUnassign(mem, h.ip)]}
             ELSE {}
      [] e.ev = "ChangeConfig" -> {[Cur EXCEPT !.cm = e.conf]}
      [] e.ev = "Crash" -> {CrashW}
      [] e.ev = "Restart" -> IF ~alive THEN {RestartW} ELSE {}
      [] e.ev \in {"Quiesce", "ScheduleEnd"} -> {Cur}
      [] OTHER -> {}

(* ---------------------------------------------------------------- re-synchronisation on the log *)
FromLog(e) ==
    LET m == MemOfLog(Exp(e, "mem")) IN
    [Cur EXCEPT !.mem = m, !.store = StoreOfLog(Exp(e, "store"), Exp(e, "mem")), !.pools = PoolsOfLog(Exp(e, "pools")),
                !.cm = Exp(e, "cm"), !.alive = Exp(e, "alive"), !.pods = PodsOfLog(Exp(e, "pods")),
                !.lpods = PodsOfLog(Exp(e, "lpods")), !.pevq = PevqOfLog(Exp(e, "pevq")), !.work = WorkOfLog(Exp(e, "work")),
                !.fev = FevOfLog(Exp(e, "fev")), !.sts = Exp(e, "sts"), !.dp = Exp(e, "dp"), !.poolobj = Exp(e, "poolobj"),
                !.cloud = Exp(e, "cloud"), !.podlock = PodLocksOfLog(Exp(e, "podlocks")), !.dplock = DpLocksOfLog(Exp(e, "dplocks")),
                !.clock = clock + 1,
                \* operations the model can no longer follow are dropped; later lines of theirs are skipped
                !.ops = IF ~Exp(e, "alive") THEN Emp
                        ELSE IF Has(e, "op") /\ e.op \in DOMAIN ops THEN [x \in (DOMAIN ops) \ {e.op} |-> ops[x]] ELSE ops,
                !.ctr = IF e.ev \in {"StartFilter", "StartPreempt", "StartBind", "StartUnbind", "StartResync", "StartApiRelease", "StartReload", "StartPoolUpsert", "StartSyncAll"}
                          THEN [ctr EXCEPT !.op = e.op + 1]
                        ELSE IF e.ev = "DeliverPod" /\ e.op # 0 THEN [ctr EXCEPT !.op = e.op + 1]
                        ELSE IF e.ev = "CreatePod" THEN [ctr EXCEPT !.uid = ctr.uid + 1] ELSE ctr]

(* ---------------------------------------------------------------- properties *)
\* Predicates are written from the property statements only; they read the observed pre-state (the
\* variables), the event e and the observed post-state w.  ghost carries the little history they need.
Live(ps) == {n \in DOMAIN ps : ps[n].phase # "Done"}
LiveBound(ps) == {n \in Live(ps) : ps[n].node # "" /\ Len(ps[n].ann) > 0}
PoolCount(m, pl) == Cardinality({ip \in DOMAIN m : m[ip].key.pool = pl})
Max2(a, b) == IF a > b THEN a ELSE b
\* the pod identity a pod key speaks of is not held by a live pod any more
\* (a live pod holds the IP if it was bound with it, or the allocation carries its uid: filter/bind in progress)
Gone(ps, k, uid, ip) == ~(k.pod \in DOMAIN ps /\ ps[k.pod].phase # "Done" /\
                          (uid = ps[k.pod].uid \/ ip \in ToSet(ps[k.pod].ann)))
\* an immutable allocation may be released: app gone / scaled below the pod / (deployment) more IPs than replicas
ImmReleasable(m, k, S, D) ==
    IF k.kind = "sts" THEN k.app \notin DOMAIN S \/ S[k.app] < IndexOf(k.pod) + 1
    ELSE IF k.kind = "dp" THEN (IF k.app \in DOMAIN D THEN D[k.app] ELSE 0) = 0 \/
                               Cardinality({ip \in DOMAIN m : HasPrefix(m[ip].key, KeyPrefixOf(k))}) > (IF k.app \in DOMAIN D THEN D[k.app] ELSE 0)
    ELSE TRUE
RetOk(e) == Has(e, "ret") /\ Has(e.ret, "ok") /\ e.ret.ok
RetFail(e) == Has(e, "ret") /\ Has(e.ret, "ok") /\ ~e.ret.ok
RetRes(e) == IF Has(e, "ret") /\ Has(e.ret, "res") THEN e.ret.res ELSE ""
\* win: the "nothing else changes" window of C06 -- a filter of a pod running alone, then the bind of that pod on one of
\* the offered nodes running alone; any other event closes it
NoWin == [k |-> "none", pod |-> "", uid |-> "", op |-> 0, nodes |-> {}, cand |-> {}, mem0 |-> Emp, node |-> "", synced |-> FALSE]
G0 == [bindown |-> Emp, fres |-> Emp, filt |-> Emp, sizeAt |-> Emp, everRel |-> {}, apiops |-> {}, assigned |-> Emp, orphan |-> {}, win |-> NoWin]
WinNext(g, e) ==
    LET wn == g.win IN
    IF e.ev = "StartFilter"
      THEN [k |-> "filter", pod |-> e.pod, uid |-> e.uid, op |-> e.op, nodes |-> {}, cand |-> ToSet(e.nodes), mem0 |-> mem, node |-> "", synced |-> FALSE]
    ELSE IF e.ev = "Step" /\ wn.k \in {"filter", "bind"} /\ e.op = wn.op /\ e.f = 0 /\ ~Has(e, "crashed")
      THEN IF ~Has(e, "res") THEN wn
           ELSE IF wn.k = "filter" /\ ResOk(e) THEN [wn EXCEPT !.k = "bindable", !.nodes = ToSet(e.res.nodes)]
           ELSE NoWin
    ELSE IF e.ev = "StartBind" /\ wn.k = "bindable" /\ e.pod = wn.pod /\ e.uid = wn.uid /\ e.node \in wn.nodes
      THEN [wn EXCEPT !.k = "bind", !.op = e.op, !.node = e.node,
                      \* the informer has caught up with the pod (otherwise Bind rightly refuses: cache out of date)
                      !.synced = e.pod \in DOMAIN lpods /\ e.pod \in DOMAIN pods /\ lpods[e.pod] = pods[e.pod]]
    ELSE NoWin
\* the app's reserve as a filter's ByPrefix read shows it: IPs under the app / pool prefix that some node subnet can route
ReserveSeen(e) == {ip \in ToSet(e.ret.ips) : ip \in DOMAIN mem /\ mem[ip].key = e.args.prefix /\ ip \in ConfIPs(pools) /\ SubnetsOf(pools, ip) # {}}
IsFilterByPrefix(e) == e.ev = "Step" /\ e.typ = "filter" /\ e.call = "ByPrefix" /\ Has(e, "ret") /\ Has(e.ret, "ips")
GhostNext(e, w) ==
    LET g == ghost
        g1 == IF e.ev = "StartBind" THEN [g EXCEPT !.bindown = Put(g.bindown, e.op, KeyIPs(mem, KeyOf(pods[e.pod])))] ELSE g
        g2 == IF e.ev = "StartFilter"
                THEN [g1 EXCEPT !.filt = Put(g1.filt, e.pod, [own |-> KeyIPs(mem, KeyOf(pods[e.pod])),
                                                              reserve |-> KeyIPs(mem, PoolPrefix(pods[e.pod]))])]
                \* the segment of a filter that ends with the key lookup is the one that reads the Pool object
                ELSE IF e.ev = "Step" /\ e.typ \in {"filter", "preempt", "bind"} /\ e.call = "ByKeyAndIPRanges" /\ e.args.key.pool # ""
                  \* (no Pool object at that moment -- e.g. deleted through the API --: the pool has no size in force for this operation)
                  THEN [g1 EXCEPT !.sizeAt = Put(g1.sizeAt, e.op, IF e.args.key.pool \in DOMAIN poolobj THEN poolobj[e.args.key.pool].size ELSE 1000)]
                ELSE g1
        g3 == IF e.ev = "StartPoolUpsert" THEN [g2 EXCEPT !.sizeAt = Put(g2.sizeAt, e.op, e.size)] ELSE g2
        g4a == IF e.ev = "StartApiRelease" THEN [g3 EXCEPT !.apiops = g3.apiops \cup {e.op}] ELSE g3
        \* provider assignments made by a bind that afterwards failed: nobody will ever unassign them (finding G)
        g4b == IF e.ev = "Step" /\ e.typ = "bind" /\ e.call = "AssignIP" /\ RetOk(e)
                 THEN [g4a EXCEPT !.assigned = Put(g4a.assigned, e.op, (IF e.op \in DOMAIN g4a.assigned THEN g4a.assigned[e.op] ELSE {}) \cup {e.args.ip})]
                 ELSE g4a
        g4c == IF e.ev = "Step" /\ e.typ = "bind" /\ Has(e, "res") /\ Has(e.res, "ok") /\ ~e.res.ok /\ e.op \in DOMAIN g4b.assigned
                 THEN [g4b EXCEPT !.orphan = g4b.orphan \cup g4b.assigned[e.op]] ELSE g4b
        g4 == IF e.ev = "Step" /\ e.call = "UnAssignIP" /\ RetOk(e) /\ e.args.ip \notin DOMAIN w.cloud
                THEN [g4c EXCEPT !.orphan = g4c.orphan \ {e.args.ip}] ELSE g4c
        \* a releasable deployment key is remembered together with the number of IPs its app held at that moment: the
        \* "more IPs than replicas" condition is about that number, and a later release must find the same number
        cnt(m, k) == IF k.kind = "dp" THEN Cardinality({y \in DOMAIN m : HasPrefix(m[y].key, KeyPrefixOf(k))}) ELSE 0
        \* ... and with the uid the allocation carried: the observation belongs to that incarnation's allocation
        rel == {[key |-> w.mem[ip].key, n |-> cnt(w.mem, w.mem[ip].key), uid |-> w.mem[ip].uid] :
                  ip \in {x \in DOMAIN w.mem : ~IsFree(w.mem[x]) /\ w.mem[x].key.pod # "" /\
                                                 ImmReleasable(w.mem, w.mem[x].key, w.sts, w.dp)}}
        \* per filter operation: its pod, and the app's reserve (IPs under the app / pool prefix that some node subnet can route) as
        \* the filter's own ByPrefix read saw it, under the deployment lock
        g5 == IF e.ev = "StartFilter" THEN [g4 EXCEPT !.fres = Put(g4.fres, e.op, [pod |-> e.pod, seen |-> {}])]
              ELSE IF IsFilterByPrefix(e) /\ e.op \in DOMAIN g4.fres
                THEN [g4 EXCEPT !.fres = Put(g4.fres, e.op, [pod |-> g4.fres[e.op].pod, seen |-> ReserveSeen(e)])]
              ELSE g4
    IN [g5 EXCEPT !.everRel = g5.everRel \cup rel,
                  !.win = WinNext(g, e)]

StepViolations(e, w) ==
    LET VT(name, bad, tag) == IF bad THEN {[prop |-> name, line |-> l, trace |-> tid, ev |-> e.ev, tag |-> tag,
                                            call |-> IF Has(e, "call") THEN e.call ELSE "", typ |-> IF Has(e, "typ") THEN e.typ ELSE ""]} ELSE {}
        V(name, bad) == VT(name, bad, "")
        P == w.pods
        isStep == e.ev = "Step"
        bindOk == isStep /\ e.call = "binding" /\ RetRes(e) = "ok"
        bp == IF bindOk THEN P[e.args.pod] ELSE NoPod            \* the pod just bound (post-state object)
        ann == IF bindOk THEN ToSet(e.args.ann) ELSE {}
        node == IF bindOk THEN e.args.node ELSE ""
        common == (DOMAIN mem) \cap (DOMAIN w.mem)
        freed == {ip \in common : ~IsFree(mem[ip]) /\ IsFree(w.mem[ip])}
        rekeyed == {ip \in common : ~IsFree(mem[ip]) /\ ~IsFree(w.mem[ip]) /\ mem[ip].key # w.mem[ip].key}
        byApi == isStep /\ e.op \in ghost.apiops
        unassign == isStep /\ e.call = "UnAssignIP"
        win == ghost.win
        winFilterDone == isStep /\ win.k = "filter" /\ e.op = win.op /\ e.f = 0 /\ ResOk(e) /\ win.pod \in DOMAIN pods
        wp == IF win.pod \in DOMAIN pods THEN pods[win.pod] ELSE NoPod
        winHeld == IF win.pod \in DOMAIN pods THEN KeyIPs(win.mem0, KeyOf(wp)) ELSE {}
    IN
    (* ---------------- C01 *)
       V("LiveAnnotationsDisjoint",
         \E p \in Live(P), q \in Live(P) : p # q /\ ToSet(P[p].ann) \cap ToSet(P[q].ann) # {})
    \cup V("BoundIPIsKeyedToPod",           \* what is written to the pod is allocated to that pod
           bindOk /\ \E ip \in ann : ip \notin DOMAIN mem \/ mem[ip].key # KeyOf(bp))
    (* ---------------- C02 *)
    \cup V("StickyBind",                    \* a pod that still holds (reserved) IPs is never given a different, fresh one
           isStep /\ e.typ = "bind" /\ e.call = "AllocateMulti" /\ RetOk(e) /\
           LET held == KeyIPs(mem, e.args.key) IN
           IF Len(e.args.ranges) = 0 THEN held # {}
           ELSE \E i \in 1..Len(e.args.ranges) : ToSet(e.args.ranges[i]) \cap held # {})
    \cup VT("ReserveBeforeFresh",           \* a deployment/pool replacement takes a reserved IP of its app, not a fresh one
           isStep /\ e.typ = "bind" /\ e.call = "AllocateMulti" /\ RetOk(e) /\ e.args.key.kind = "dp" /\ e.args.attr.policy # 0 /\
           e.args.key.pod \in DOMAIN ghost.filt /\
           \E ip2 \in ghost.filt[e.args.key.pod].reserve :
               ip2 \in DOMAIN mem /\ mem[ip2].key = KeyPrefixOf(e.args.key) /\ e.args.subnet \in SubnetsOf(pools, ip2),
           \* (the pod's key still held an IP when its filter ran -- left by the previous incarnation -- and lost it before the bind)
           IF isStep /\ e.typ = "bind" /\ e.call = "AllocateMulti" /\ e.args.key.pod \in DOMAIN ghost.filt /\ ghost.filt[e.args.key.pod].own # {}
             THEN "heldAtFilterLostBeforeBind" ELSE "")
    \cup V("FilterTakesReserve",           \* a replacement pod of a reserving deployment / pool whose filter found IPs of its app in reserve
                                           \* and offers nodes has taken one of them for the pod (it is not left to the bind to find a fresh one)
           isStep /\ e.typ = "filter" /\ ResOk(e) /\ Has(e.res, "nodes") /\ Len(e.res.nodes) > 0 /\ e.op \in DOMAIN ghost.fres /\
           (IF IsFilterByPrefix(e) THEN ReserveSeen(e) ELSE ghost.fres[e.op].seen) # {} /\ ghost.fres[e.op].pod \in DOMAIN pods /\
           LET fp == pods[ghost.fres[e.op].pod] IN
           fp.kind = "dp" /\ PolicyOf(fp) # 0 /\ Len(fp.ranges) = 0 /\ KeyIPs(w.mem, KeyOf(fp)) = {})
    (* ---------------- C03 *)
    \cup V("ReleaseJustified",
           e.ev \notin {"Crash", "Restart"} /\ ~byApi /\ ~Has(e, "crashed") /\
           ~(isStep /\ e.call = "ConfigurePool") /\ e.ev # "DeliverFev" /\
           \E ip \in freed :
              \* the policy is the one the owning pod identity declares (the stored copy may have been lost, e.g. by a restart)
              LET k == mem[ip].key
                  pl == IF k.pod \in DOMAIN Specs THEN (IF Specs[k.pod].pool # "" THEN 2 ELSE Specs[k.pod].policy) ELSE mem[ip].policy IN
              \/ k.pod = ""                                             \* reserved under an app / pool prefix: API only
              \/ ~Gone(pods, k, mem[ip].uid, ip)                          \* still held by a live pod
              \/ pl = 2 \/ k.pool # ""                                  \* never / pool: API only
              \/ pl = 1 /\ Supports(k, 1) /\
                 ~([key |-> k, n |-> IF k.kind = "dp" THEN Cardinality({y \in DOMAIN mem : HasPrefix(mem[y].key, KeyPrefixOf(k))}) ELSE 0,
                    uid |-> mem[ip].uid] \in ghost.everRel
                   \/ ImmReleasable(mem, k, sts, dp)))
    \cup V("NoLeakAtQuiescence",
           e.ev = "Quiesce" /\ w.alive /\
           \E ip \in DOMAIN w.mem :
              LET m == w.mem[ip]  k == m.key IN
              /\ ~IsFree(m) /\ k.pod # "" /\ ~m.lab /\ Gone(P, k, m.uid, ip)
              \* an allocation that carries no uid is kept for the pod identity: it is not a leak while a live pod of that name exists
              /\ ~(m.uid = "" /\ k.pod \in DOMAIN P /\ P[k.pod].phase # "Done")
              /\ \/ m.policy = 0 /\ k.pool = ""
                 \/ m.policy = 1 /\ k.pool = "" /\ Supports(k, 1) /\ ImmReleasable(w.mem, k, w.sts, w.dp)
                 \/ m.policy = 1 /\ ~Supports(k, 1))
    (* ---------------- C04 *)
    \cup V("LiveKeepsIP",
           w.alive /\ alive /\ \E p \in LiveBound(P) : \E ip \in ToSet(P[p].ann) :
               /\ p \in DOMAIN pods /\ pods[p].uid = P[p].uid /\ ip \in ToSet(pods[p].ann)
               /\ ip \in common /\ mem[ip].key = KeyOf(P[p]) /\ w.mem[ip].key # KeyOf(P[p]))
    \cup V("NoUnassignWhileLive",
           unassign /\ \E p \in LiveBound(pods) : e.args.ip \in ToSet(pods[p].ann) /\
                         e.args.ip \in DOMAIN mem /\ mem[e.args.ip].key = KeyOf(pods[p]))
    (* ---------------- C05 *)
    \cup V("MemStoreAgree", w.alive /\ ~MemStoreAgreeExcept(w.mem, w.store, {w.fev[i].ip : i \in 1..Len(w.fev)}))
    (* ---------------- C06 *)
    \cup V("Routable", bindOk /\ \E ip \in ann : ip \notin ConfIPs(pools) \/ NodeSub[node] \notin SubnetsOf(pools, ip))
    \cup V("IPInfoOfPool",               \* mask, gateway and vlan written with the IP are those of the IP's pool
           bindOk /\ \E i \in 1..Len(e.args.ann) :
               \/ i > Len(e.args.info)
               \/ \E pl \in DOMAIN pools : e.args.ann[i] \in pools[pl].ips /\ e.args.info[i] # pools[pl].info)
    \cup V("FilterImpliesBind",          \* filter offered the node, nothing else happened, no fault: bind succeeds (or waits for the old pod)
           isStep /\ win.k = "bind" /\ e.op = win.op /\ e.f = 0 /\ win.synced /\ ResFail(e) /\ ~ResWait(e))
    \cup V("HolderOfferedRoutableOnly",  \* a pod that already holds an IP is only offered nodes from which that IP is routable
           winFilterDone /\ \E n \in ToSet(e.res.nodes) : \E ip \in winHeld : NodeSub[n] \notin SubnetsOf(pools, ip))
    \cup V("FreshOfferedExactly",        \* a fresh default-policy pod is offered exactly the candidates with a free routable IP
           winFilterDone /\ winHeld = {} /\ wp.policy = 0 /\ wp.pool = "" /\ Len(wp.ranges) = 0 /\
           ToSet(e.res.nodes) # {n \in win.cand : \E ip \in ConfIPs(pools) \cap DOMAIN win.mem0 :
                                                     IsFree(win.mem0[ip]) /\ NodeSub[n] \in SubnetsOf(pools, ip)})
    (* ---------------- C07 *)
    \cup V("PoolCap",
           w.alive /\ alive /\ \E pl \in DOMAIN poolobj :
               /\ PoolCount(w.mem, pl) > PoolCount(mem, pl)
               /\ PoolCount(w.mem, pl) > Max2(poolobj[pl].size,
                                              IF isStep /\ e.op \in DOMAIN ghost.sizeAt THEN ghost.sizeAt[e.op] ELSE 0))
    (* ---------------- C08 *)
    \cup V("MultiInRangeOrdered",
           bindOk /\ Len(bp.ranges) > 0 /\
           ~( /\ Len(e.args.ann) = Len(bp.ranges)
              /\ \A i \in 1..Len(e.args.ann) : e.args.ann[i] \in bp.ranges[i] /\
                     \A j \in 1..Len(e.args.ann) : i # j => e.args.ann[i] # e.args.ann[j] ))
    \cup V("MultiAllOrNothing",
           isStep /\ e.call = "AllocateMulti" /\ RetFail(e) /\ (Strip(w.mem) # Strip(mem) \/ Strip(w.store) # Strip(store)))
    (* ---------------- C09 *)
    \cup V("NoReservedOrUnconfiguredHandedOut",
           bindOk /\ \E ip \in ann : ip \notin ConfIPs(pools) \/ (ip \in DOMAIN store /\ store[ip].lab))
    \cup V("ReservedNotAllocated",
           w.alive /\ \E ip \in (DOMAIN w.store) \cap (DOMAIN w.mem) : w.store[ip].lab /\ ~IsFree(w.mem[ip]) /\ ~w.mem[ip].lab)
    (* ---------------- C10 *)
    \cup VT("CloudSingleNode",
            isStep /\ e.call = "AssignIP" /\ RetOk(e) /\ e.args.ip \in DOMAIN cloud /\ cloud[e.args.ip] # e.args.node,
            \* tag "rebind-after-failed-bind": the provider's assignment was left by a bind that failed after assigning
            IF isStep /\ e.call = "AssignIP" /\ e.args.ip \in ghost.orphan THEN "rebind-after-failed-bind" ELSE "")
    \cup V("LiveAssignedToOwnNode",
           CloudOn /\ bindOk /\ \E ip \in ann : ip \notin DOMAIN w.cloud \/ w.cloud[ip] # node)
    \cup V("LiveStaysAssigned",          \* every IP of a bound live pod is (stays) assigned to that pod's node
           CloudOn /\ \E p \in LiveBound(pods) \cap LiveBound(P) : pods[p].uid = P[p].uid /\ \E ip \in ToSet(pods[p].ann) :
               ip \in DOMAIN cloud /\ cloud[ip] = pods[p].node /\ ip \notin DOMAIN w.cloud)
    \cup VT("UnassignBeforeHandover",
            CloudOn /\ e.ev \notin {"Crash", "Restart"} /\ \E ip \in freed \cup rekeyed : ip \in DOMAIN cloud,
            IF \A ip \in (freed \cup rekeyed) \cap (DOMAIN cloud) : ip \in ghost.orphan THEN "rebind-after-failed-bind" ELSE "")
    (* ---------------- C18 *)
    \cup V("NoPanic", e.ev = "Panic")
    \cup V("NoHang", e.ev = "Hang")

Init ==
    /\ l = 1 /\ tid = 0 /\ lastlog = Emp /\ viol = {} /\ div = {} /\ ghost = G0
    /\ stats = [events |-> 0, traces |-> 0, conform |-> 0, skipped |-> 0, winfilter |-> 0, winfresh |-> 0, winholder |-> 0, winbind |-> 0, winbindwait |-> 0]
    /\ mem = Emp /\ store = Emp /\ pools = Emp /\ clock = 100 /\ pods = Emp /\ lpods = Emp /\ pevq = <<>> /\ work = <<>>
    /\ sts = Emp /\ dp = Emp /\ poolobj = Emp /\ cm = 1 /\ cloud = Emp /\ ops = Emp /\ podlock = Emp /\ dplock = Emp
    /\ nscache = Emp /\ fev = <<>> /\ alive = TRUE /\ loaded = 1 /\ filtered = Emp
    /\ ctr = [uid |-> 1, op |-> 1, inc |-> Emp]
    /\ Specs = Emp /\ NodeSub = Emp /\ Configs = <<>> /\ CloudOn = FALSE

UpdLast(e) == lastlog' = [k \in StateKeys |-> IF Has(e, k) THEN e[k] ELSE lastlog[k]]

Reset(e) ==
    /\ tid' = e.trace
    /\ Specs' = SpecsOfLog(e.specs) /\ NodeSub' = e.nodesub /\ CloudOn' = e.cloudOn
    /\ Configs' = [i \in 1..Len(e.configs) |-> PoolsOfLog(e.configs[i])]
    /\ mem' = MemOfLog(e.mem) /\ store' = StoreOfLog(e.store, e.mem) /\ pools' = PoolsOfLog(e.pools) /\ clock' = 100
    /\ pods' = PodsOfLog(e.pods) /\ lpods' = PodsOfLog(e.lpods) /\ pevq' = <<>> /\ work' = <<>>
    /\ sts' = e.sts /\ dp' = e.dp /\ poolobj' = e.poolobj /\ cm' = e.cm /\ cloud' = e.cloud
    /\ ops' = Emp /\ podlock' = Emp /\ dplock' = Emp /\ nscache' = Emp /\ fev' = <<>> /\ alive' = TRUE
    /\ loaded' = e.cm /\ filtered' = Emp /\ ctr' = [uid |-> 1, op |-> 1, inc |-> Emp]
    /\ lastlog' = [k \in StateKeys |-> e[k]]
    /\ viol' = viol /\ div' = div /\ ghost' = G0
    /\ stats' = [stats EXCEPT !.traces = @ + 1, !.events = @ + 1]

\* how often the C06 predicates had their antecedent (coverage, reported with the verdict)
WinStats(st, e) ==
    LET win == ghost.win
        fd == e.ev = "Step" /\ win.k = "filter" /\ e.op = win.op /\ e.f = 0 /\ ResOk(e) /\ win.pod \in DOMAIN pods
        wp == IF win.pod \in DOMAIN pods THEN pods[win.pod] ELSE NoPod
        held == IF win.pod \in DOMAIN pods THEN KeyIPs(win.mem0, KeyOf(wp)) ELSE {}
        bd == e.ev = "Step" /\ win.k = "bind" /\ e.op = win.op /\ e.f = 0 /\ win.synced /\ Has(e, "res")
        b(x) == IF x THEN 1 ELSE 0 IN
    [st EXCEPT !.winfilter = @ + b(fd), !.winholder = @ + b(fd /\ held # {}),
               !.winfresh = @ + b(fd /\ held = {} /\ wp.policy = 0 /\ wp.pool = "" /\ Len(wp.ranges) = 0),
               !.winbind = @ + b(bd), !.winbindwait = @ + b(bd /\ ResFail(e) /\ ResWait(e))]

Skippable(e) ==      \* lines of operations the model dropped after a divergence, or cut by a crash
    \/ e.ev = "Step" /\ e.op \notin DOMAIN ops
    \/ Has(e, "crashed")
    \/ e.ev \in {"Panic", "Hang"}

Event(e) ==
    LET good == {w \in Proposed(e) : Same(w, e)} IN
    /\ tid' = tid /\ UNCHANGED cfgVars /\ UpdLast(e)
    /\ IF Skippable(e)
         THEN LET w == FromLog(e) IN
              /\ SetWorld(w) /\ div' = div /\ ghost' = GhostNext(e, w)
              /\ viol' = viol \cup StepViolations(e, w)
              /\ stats' = [WinStats(stats, e) EXCEPT !.events = @ + 1, !.skipped = @ + 1]
         ELSE IF good # {}
           THEN \E w \in good :
                  /\ SetWorld(w) /\ div' = div /\ ghost' = GhostNext(e, w)
                  /\ viol' = viol \cup StepViolations(e, w)
                  /\ stats' = [WinStats(stats, e) EXCEPT !.events = @ + 1, !.conform = @ + 1]
           ELSE LET w == FromLog(e) IN
                /\ SetWorld(w) /\ ghost' = GhostNext(e, w)
                /\ div' = div \cup {[line |-> l, trace |-> tid, ev |-> e.ev, call |-> IF Has(e, "call") THEN e.call ELSE "",
                                     typ |-> IF Has(e, "typ") THEN e.typ ELSE "",
                                     why |-> IF Proposed(e) = {} THEN {"noproposal"} ELSE UNION {Diff(x, e) : x \in Proposed(e)},
                                     model |-> IF Proposed(e) = {} THEN <<>> ELSE LET x == CHOOSE y \in Proposed(e) : TRUE IN
                                               [k \in Diff(x, e) |-> IF k = "mem" THEN Strip(x.mem) ELSE IF k = "store" THEN Strip(x.store) ELSE x[k]]]}
                /\ viol' = viol \cup StepViolations(e, w)
                /\ stats' = [WinStats(stats, e) EXCEPT !.events = @ + 1]

Next ==
    /\ l <= Len(Trace)
    /\ l' = l + 1
    /\ LET e == Trace[l] IN IF e.ev = "Reset" THEN Reset(e) ELSE Event(e)

Spec == Init /\ [][Next]_allvars

Report ==
    l <= Len(Trace) \/
    PrintT(<<"REPORT", ToJson([lines |-> Len(Trace), consumed |-> l - 1, viol |-> viol, div |-> div, stats |-> stats])>>)
=============================================================================
