----------------------------- MODULE IPAMCoreSpec -----------------------------
(***************************************************************************)
(* The IPAM object driven method by method, with store faults, crashes,    *)
(* restarts, administrator reservations (labelled FloatingIP objects and   *)
(* their watch events) and run-time reconfiguration.  Decides the core     *)
(* parts of C05, C08, C09 on the model; Trace_IPAMCore binds it to         *)
(* floatingip.NewCrdIPAM.                                                  *)
(***************************************************************************)
EXTENDS IPAMCore

CONSTANTS
    Configs,        \* sequence of pool configurations (pool id -> [subnets, ips])
    Keys,           \* set of key records used by callers
    Attrs,          \* set of attrs used by callers
    AdminKey,       \* key written on administrator reservations
    RangeLists,     \* set of range lists (sequences of sets of IPs) for multi-IP requests
    MaxFaults, MaxCrashes, MaxReloads, MaxAdmin,
    Features,       \* subset of {"alloc","rekey","release","multi","specific","reload","admin","crash"}
    AtomicReload    \* TRUE: ConfigurePool lists under the lock (repaired code); FALSE: list first (defect B)

VARIABLES mem, store, pools, clock, fev, alive, sec, used, last
vars == <<mem, store, pools, clock, fev, alive, sec, used, last>>

IPs == {IPSeq[i] : i \in 1..Len(IPSeq)}
NoSec == [kind |-> "none"]
Subnets == UNION {AllSubnets(Configs[i]) : i \in 1..Len(Configs)}

Init ==
    /\ pools = Configs[1]
    /\ mem = [ip \in ConfIPs(Configs[1]) |-> FreeRec]
    /\ store = [ip \in {} |-> FreeRec]
    /\ clock = 1
    /\ fev = <<>>
    /\ alive = TRUE
    /\ sec = NoSec
    /\ used = [faults |-> 0, crashes |-> 0, reloads |-> 0, admin |-> 0]
    /\ last = [act |-> "init", ret |-> Ok]

Faults == IF used.faults < MaxFaults THEN 0..4 ELSE {0}
UseFault(f, calls) == used' = IF f # 0 /\ f <= calls THEN [used EXCEPT !.faults = @ + 1] ELSE used

\* apply one outcome of an atomic method
Apply(act, o, f) ==
    /\ mem' = o.mem /\ store' = o.store
    /\ clock' = clock + 1
    /\ last' = [act |-> act, ret |-> o.ret]
    /\ UseFault(f, o.calls)
    /\ UNCHANGED <<pools, fev, alive, sec>>

Up == alive

DoAllocateInSubnet(key, subnet, attr, f) ==
    /\ Up /\ \E o \in AllocateInSubnet(mem, store, pools, key, subnet, attr, clock, f) : Apply("AllocateInSubnet", o, f)
DoAllocateInSubnetWithKey(oldK, newK, subnet, attr, f) ==
    /\ Up /\ \E o \in AllocateInSubnetWithKey(mem, store, pools, oldK, newK, subnet, attr, clock, f) :
                Apply("AllocateInSubnetWithKey", o, f)
DoReserveIP(oldK, newK, attr, f) ==
    /\ Up /\ \E o \in ReserveIP(mem, store, oldK, newK, attr, clock, f) : Apply("ReserveIP", o, f)
DoUpdateAttr(key, ip, attr, f) ==
    /\ Up /\ \E o \in UpdateAttr(mem, store, key, ip, attr, clock, f) : Apply("UpdateAttr", o, f)
DoRelease(key, ip, f) ==
    /\ Up /\ \E o \in Release(mem, store, key, ip, f) : Apply("Release", o, f)
DoReleaseIPs(want, f) ==
    /\ Up /\ \E o \in ReleaseIPs(mem, store, want, f) : Apply("ReleaseIPs", o, f)
DoAllocateMulti(key, subnet, ranges, attr, f) ==
    /\ Up /\ \E o \in AllocateInSubnetsAndIPRange(mem, store, pools, key, subnet, ranges, attr, clock, f) :
                Apply("AllocateMulti", o, f)

(* AllocateSpecificIP in its three sections; other methods may run in between *)
SpecificStart(key, ip, attr) ==
    /\ Up /\ sec = NoSec
    /\ IF SpecificCheck(mem, ip)
         THEN sec' = [kind |-> "specific", key |-> key, ip |-> ip, attr |-> attr, stage |-> "create", ts |-> clock]
              /\ last' = [act |-> "SpecificCheck", ret |-> Ok]
         ELSE sec' = NoSec /\ last' = [act |-> "SpecificCheck", ret |-> Err("notfound")]
    /\ clock' = clock + 1     \* the record's timestamp is taken here, before the create
    /\ UNCHANGED <<mem, store, pools, fev, alive, used>>
SpecificCreateStep(f) ==
    /\ Up /\ sec.kind = "specific" /\ sec.stage = "create"
    /\ LET c == SpecificCreate(store, sec.key, sec.ip, sec.attr, sec.ts, f) IN
       /\ store' = c.store
       /\ IF c.ok THEN sec' = [sec EXCEPT !.stage = "commit"] /\ last' = [act |-> "SpecificCreate", ret |-> Ok]
                  ELSE sec' = NoSec /\ last' = [act |-> "SpecificCreate", ret |-> Err("create")]
    /\ UseFault(f, 1)
    /\ UNCHANGED <<mem, pools, clock, fev, alive>>
SpecificCommitStep ==
    /\ Up /\ sec.kind = "specific" /\ sec.stage = "commit"
    /\ mem' = SpecificCommit(mem, sec.key, sec.ip, sec.attr, sec.ts)
    /\ clock' = clock + 1 /\ sec' = NoSec
    /\ last' = [act |-> "SpecificCommit", ret |-> Ok]
    /\ UNCHANGED <<store, pools, fev, alive, used>>

(* ConfigurePool at run time: list ; swap.  With AtomicReload nothing interleaves. *)
CfgList(i, f) ==
    /\ Up /\ sec = NoSec /\ used.reloads < MaxReloads
    /\ IF f = 1
         THEN sec' = NoSec /\ last' = [act |-> "CfgList", ret |-> Err("list")]
         ELSE sec' = [kind |-> "cfg", listed |-> store, conf |-> i]
              /\ last' = [act |-> "CfgList", ret |-> Ok]
    /\ used' = [used EXCEPT !.reloads = @ + 1, !.faults = IF f = 1 THEN @ + 1 ELSE @]
    /\ UNCHANGED <<mem, store, pools, clock, fev, alive>>
CfgSwap ==
    /\ Up /\ sec.kind = "cfg"
    /\ LET sw == ConfigureSwap(store, sec.listed, Configs[sec.conf], 0) IN
       /\ mem' = sw.mem
       /\ store' = [ip \in (DOMAIN store) \ sw.drop |-> store[ip]]
       /\ fev' = fev \o DropEvents(store, sw.drop)
    /\ pools' = Configs[sec.conf]
    /\ sec' = NoSec
    /\ last' = [act |-> "CfgSwap", ret |-> Ok]
    /\ UNCHANGED <<clock, alive, used>>
Reload(i) ==      \* atomic variant
    /\ Up /\ sec = NoSec /\ used.reloads < MaxReloads
    /\ LET sw == ConfigureSwap(store, store, Configs[i], 0) IN
       /\ mem' = sw.mem
       /\ store' = [ip \in (DOMAIN store) \ sw.drop |-> store[ip]]
       /\ fev' = fev \o DropEvents(store, sw.drop)
    /\ pools' = Configs[i]
    /\ used' = [used EXCEPT !.reloads = @ + 1]
    /\ last' = [act |-> "CfgSwap", ret |-> Ok]
    /\ UNCHANGED <<clock, alive, sec>>

(* administrator: labelled FloatingIP objects; the watch event arrives later *)
AdminReserve(ip) ==
    /\ used.admin < MaxAdmin /\ ip \notin DOMAIN store
    /\ store' = Put(store, ip, [key |-> AdminKey, policy |-> 2, uid |-> "", node |-> "", lab |-> TRUE, ts |-> clock])
    /\ fev' = Append(fev, [type |-> "add", ip |-> ip])
    /\ used' = [used EXCEPT !.admin = @ + 1]
    /\ last' = [act |-> "AdminReserve", ret |-> Ok]
    /\ UNCHANGED <<mem, pools, clock, alive, sec>>
AdminUnreserve(ip) ==
    /\ ip \in DOMAIN store /\ store[ip].lab
    /\ store' = Del(store, ip)
    /\ fev' = Append(fev, [type |-> "del", ip |-> ip])
    /\ last' = [act |-> "AdminUnreserve", ret |-> Ok]
    /\ UNCHANGED <<mem, pools, clock, alive, sec, used>>
DeliverFev ==
    /\ Up /\ fev # <<>>
    /\ LET e == Head(fev) IN
       mem' = IF e.type = "add" THEN HandleFIPAssign(mem, e.ip, AdminKey, 2, clock)
              ELSE HandleFIPUnassign(mem, e.ip)
    /\ fev' = Tail(fev) /\ clock' = clock + 1
    /\ last' = [act |-> "DeliverFev", ret |-> Ok]
    /\ UNCHANGED <<store, pools, alive, sec, used>>

(* crash: memory and in-flight sections are lost; undelivered events are lost too (the informer
   re-lists on start).  A crash inside a multi-store-call method leaves a prefix of its calls. *)
Crash ==
    /\ alive /\ used.crashes < MaxCrashes
    /\ alive' = FALSE /\ sec' = NoSec /\ fev' = <<>>
    /\ used' = [used EXCEPT !.crashes = @ + 1]
    /\ last' = [act |-> "Crash", ret |-> Ok]
    /\ UNCHANGED <<mem, store, pools, clock>>
\* crash in the middle of a method: the store keeps what a fault at call j+1 would have left, before
\* any compensation (a rollback is a later call and is cut off as well)
CrashInMulti(key, subnet, ranges, attr, j) ==
    /\ alive /\ used.crashes < MaxCrashes /\ Len(ranges) > 0
    /\ LET picked == PickSeq(mem, pools, subnet, ranges, 1, <<>>) IN
       /\ picked # <<"none">> /\ j \in 1..Len(picked)
       /\ store' = CreateSeq(store, picked, 1, key, attr, clock, j + 1).store
    /\ alive' = FALSE /\ sec' = NoSec /\ fev' = <<>>
    /\ used' = [used EXCEPT !.crashes = @ + 1]
    /\ last' = [act |-> "Crash", ret |-> Ok]
    /\ UNCHANGED <<mem, pools, clock>>
Restart ==
    /\ ~alive
    /\ LET sw == ConfigureSwap(store, store, pools, 0) IN
       /\ mem' = sw.mem
       /\ store' = [ip \in (DOMAIN store) \ sw.drop |-> store[ip]]
    /\ alive' = TRUE
    /\ last' = [act |-> "Restart", ret |-> Ok]
    /\ UNCHANGED <<pools, clock, fev, sec, used>>

On(x) == x \in Features
Next ==
    \/ On("alloc") /\ \E k \in Keys, s \in Subnets, a \in Attrs, f \in Faults \cap {0, 1} : DoAllocateInSubnet(k, s, a, f)
    \/ On("rekey") /\ \E k1 \in Keys, k2 \in Keys, s \in Subnets, a \in Attrs, f \in Faults \cap 0..2 : DoAllocateInSubnetWithKey(k1, k2, s, a, f)
    \/ On("rekey") /\ \E k1 \in Keys, k2 \in Keys, a \in Attrs, f \in Faults : DoReserveIP(k1, k2, a, f)
    \/ On("rekey") /\ \E k \in Keys, ip \in IPs, a \in Attrs, f \in Faults \cap 0..2 : DoUpdateAttr(k, ip, a, f)
    \/ On("release") /\ \E k \in Keys, ip \in IPs, f \in Faults \cap {0, 1} : DoRelease(k, ip, f)
    \/ On("release") /\ \E k \in Keys, f \in Faults \cap 0..2 : DoReleaseIPs([ip \in KeyIPs(mem, k) |-> k], f)
    \/ On("multi") /\ \E k \in Keys, s \in Subnets, r \in RangeLists, a \in Attrs, f \in Faults \cap 0..3 : DoAllocateMulti(k, s, r, a, f)
    \/ On("specific") /\ \E k \in Keys, ip \in IPs, a \in Attrs : SpecificStart(k, ip, a)
    \/ On("specific") /\ \E f \in Faults \cap {0, 1} : SpecificCreateStep(f)
    \/ On("specific") /\ SpecificCommitStep
    \/ On("reload") /\ (IF AtomicReload THEN \E i \in 1..Len(Configs) : Reload(i)
                        ELSE \/ \E i \in 1..Len(Configs), f \in Faults \cap {0, 1} : CfgList(i, f)
                             \/ CfgSwap)
    \/ On("admin") /\ \E ip \in IPs : AdminReserve(ip) \/ AdminUnreserve(ip)
    \/ On("admin") /\ DeliverFev
    \/ On("crash") /\ Crash
    \/ On("crash") /\ On("multi") /\ \E k \in Keys, s \in Subnets, r \in RangeLists, a \in Attrs, j \in 1..2 : CrashInMulti(k, s, r, a, j)
    \/ Restart

Spec == Init /\ [][Next]_vars

(* ------------------------------ properties ------------------------------ *)
PendingIPs == {fev[i].ip : i \in 1..Len(fev)}
\* C05: at every operation boundary memory and store agree (IPs whose reservation event is still
\* travelling are exempt, so is the IP of an AllocateSpecificIP in flight)
InFlightIPs == IF sec.kind = "specific" THEN {sec.ip} ELSE {}
MemStoreAgree ==
    (alive /\ sec.kind # "cfg") => MemStoreAgreeExcept(mem, store, PendingIPs \cup InFlightIPs)
\* C01 (core part): the store never holds an object for an IP that memory gives to someone else
TypeOK == /\ DOMAIN mem = ConfIPs(pools) \/ ~alive \/ sec.kind = "specific"
          /\ \A ip \in DOMAIN store : store[ip].key # NoKey
\* C08: a failed multi-IP allocation leaves nothing behind
MultiAllOrNothing ==
    [][(last'.act = "AllocateMulti" /\ ~last'.ret.ok) => (mem' = mem /\ store' = store)]_vars
\* C08: a successful one returns one distinct IP per range, inside the range, routable from the subnet
\* (checked in the trace spec on the logged arguments; on the model through the operator's definition)
\* C09: while an administrator's labelled object exists, memory never gives the IP to anybody else
\* (reserved = the labelled object exists; the in-memory label is only a cache of it)
ReservedNotAllocated ==
    alive => \A ip \in (DOMAIN store) \cap (DOMAIN mem) :
                store[ip].lab => (IsFree(mem[ip]) \/ mem[ip].lab)
\* C09: and the labelled object itself is never overwritten or removed by an allocation path
ReservedObjectKept ==
    [][\A ip \in DOMAIN store : store[ip].lab =>
          \/ ip \in DOMAIN store' /\ store'[ip] = store[ip]
          \/ last'.act \in {"AdminUnreserve", "CfgSwap", "Restart"}]_vars
\* C09: nothing outside the configuration is ever allocated
OnlyConfigured == alive => \A ip \in DOMAIN mem : ~IsFree(mem[ip]) => ip \in ConfIPs(pools)
\* C09: reload is lossless -- a consequence of MemStoreAgree at the boundary after CfgSwap, plus:
ReloadDropsExactlyOthers ==
    [][last'.act = "CfgSwap" => /\ DOMAIN mem' = ConfIPs(pools')
                                /\ \A ip \in DOMAIN store' : ip \in ConfIPs(pools')]_vars
ReloadLossless ==
    [][last'.act \in {"CfgSwap", "Restart"} =>
         \A ip \in DOMAIN store : ip \in ConfIPs(pools') =>
             /\ ip \in DOMAIN store' /\ store'[ip] = store[ip]
             /\ ip \in DOMAIN mem' /\ AgreeOn(mem', store', ip)]_vars
\* C05: restart reconstructs exactly the state before the crash when the crash hit no method
RestartReconstructs ==
    [][(last'.act = "Restart") =>
         \A ip \in DOMAIN mem' : AgreeOn(mem', store', ip)]_vars

(* state-space control: timestamps only matter through their order *)
TsVals == {mem[ip].ts : ip \in DOMAIN mem} \cup {store[ip].ts : ip \in DOMAIN store}
Rank(t) == Cardinality({x \in TsVals : x < t})
View == << [ip \in DOMAIN mem |-> [mem[ip] EXCEPT !.ts = Rank(@)]],
           [ip \in DOMAIN store |-> [store[ip] EXCEPT !.ts = Rank(@)]],
           pools, fev, alive,
           IF sec.kind = "cfg" THEN [sec EXCEPT !.listed = [ip \in DOMAIN sec.listed |-> [sec.listed[ip] EXCEPT !.ts = 0]]] ELSE sec,
           used, last >>
=============================================================================
