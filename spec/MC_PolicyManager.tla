--------------------------- MODULE MC_PolicyManager ---------------------------
(***************************************************************************)
(* Bounded behaviours of PolicyManager over a small universe: policies and  *)
(* pods come and go, events are handled or (pods: while up; everything:     *)
(* while down) not, the process restarts and synchronises.  TLC checks:     *)
(*   ForeignUntouchedM   foreign chains, rules and sets never change        *)
(*   ExactOrKnownM       after a synchronisation the owned state is         *)
(*                       Derived(c), or the difference is one of the two    *)
(*                       known shapes (stale pod chain / stale policy chain *)
(*                       in use)                                            *)
(*   Repaired = TRUE:    ExactM  the three-phase synchronisation of          *)
(*                       PolicyManager.FullSyncRepaired always ends exact,   *)
(*                       NoDanglingM  and never submits a dangling batch     *)
(***************************************************************************)
EXTENDS PolicyManager

CONSTANTS Repaired, MaxSteps

VARIABLES c, K, mgr, up, steps, lastSync,  \* lastSync: [pre, post] kernel states of the latest synchronisation, or Emp
          hist                             \* the actions taken so far (a schedule the harness can replay on the real code); not in the VIEW
vars == <<c, K, mgr, up, steps, lastSync, hist>>
View == <<c, K, mgr, up, steps, lastSync>>

Univ == [addrs |-> {"a1", "a2", "x1"}, blocks |-> ("B1" :> {"x1"}), plen |-> ("B1" :> 24), unstorable |-> {}]
Nss == ("na" :> {"t=x"})
NoSel == [has |-> FALSE, labels |-> {}]
PodPeer(l) == [pod |-> [has |-> TRUE, labels |-> l], ns |-> NoSel, block |-> "", except |-> {}]
BlkPeer == [pod |-> NoSel, ns |-> NoSel, block |-> "B1", except |-> {}]
Pol(name, sel, types, peers) ==
    [name |-> name, ns |-> "na", sel |-> sel, types |-> types,
     ingress |-> IF "Ingress" \in types THEN <<[ports |-> <<>>, peers |-> peers]>> ELSE <<>>,
     egress |-> IF "Egress" \in types THEN <<[ports |-> <<[proto |-> "tcp", port |-> "80"]>>, peers |-> peers]>> ELSE <<>>]
PolChoices == {Pol("q1", {"r=a"}, {"Ingress"}, <<PodPeer({})>>), Pol("q1", {}, {"Egress"}, <<BlkPeer>>), Pol("q2", {"r=a"}, {"Ingress", "Egress"}, <<PodPeer({"r=a"}), BlkPeer>>)}
PodChoices == {[name |-> "p1", ns |-> "na", labels |-> {"r=a"}, ip |-> "", local |-> TRUE],
               [name |-> "p2", ns |-> "na", labels |-> {}, ip |-> "", local |-> TRUE]}
Key(o) == o.name \o "_" \o o.ns
Foreign0 == [sets |-> ("KUBE-SET" :> [type |-> "ip", members |-> {"z"}]),
             chains |-> ("FORWARD" :> <<Jump("KUBE-FWD")>>) @@ ("INPUT" :> <<>>) @@ ("OUTPUT" :> <<>>) @@
                        ("KUBE-FWD" :> <<R("", "", "all", <<SR("KUBE-SET", "src")>>, <<>>, FALSE, "ACCEPT")>>)]

Init == /\ c = [nss |-> Nss, pods |-> Emp, pols |-> Emp] /\ K = Foreign0 /\ mgr = NoCluster /\ up = TRUE /\ steps = 0 /\ lastSync = Emp
        /\ hist = <<>>
H(x) == hist' = Append(hist, x)

Sync(s, cl) == IF Repaired THEN FullSyncRepaired(s, Univ, cl) ELSE FullSync(s, Univ, cl)
\* (the repaired manager uses the same three-phase synchronisation for its policy handlers)
AddPol(s, cl) == IF Repaired THEN FullSyncRepaired(s, Univ, cl) ELSE OnAddPolicy(s, Univ, cl)
DelPol(s, cl) == IF Repaired THEN FullSyncRepaired(s, Univ, cl) ELSE OnDeletePolicy(s, Univ, cl)
Apply(s) == K' = s.K /\ mgr' = s.m
Tick == steps < MaxSteps /\ steps' = steps + 1

DoSync == /\ Tick /\ up /\ UNCHANGED <<c, up>> /\ H([a |-> "Sync"])
          /\ Apply(Sync(St(K, mgr), c)) /\ lastSync' = [pre |-> K, post |-> Sync(St(K, mgr), c).K]
PolicyEdit ==
    /\ Tick /\ UNCHANGED up
    /\ \/ \E p \in PolChoices : Key(p) \notin DOMAIN c.pols /\ c' = [c EXCEPT !.pols = Upd(c.pols, Key(p), p)] /\ H([a |-> "AddPolicy", pol |-> p]) /\
                                 IF up THEN Apply(AddPol(St(K, mgr), c')) /\ lastSync' = [pre |-> K, post |-> AddPol(St(K, mgr), c').K]
                                 ELSE UNCHANGED <<K, mgr, lastSync>>
       \/ \E k \in DOMAIN c.pols : c' = [c EXCEPT !.pols = Without(c.pols, {k})] /\ H([a |-> "DeletePolicy", key |-> k]) /\
                                 IF up THEN Apply(DelPol(St(K, mgr), c')) /\ lastSync' = [pre |-> K, post |-> DelPol(St(K, mgr), c').K]
                                 ELSE UNCHANGED <<K, mgr, lastSync>>
PodEdit ==
    /\ Tick /\ UNCHANGED up /\ lastSync' = Emp
    /\ \E handled \in BOOLEAN :
       \/ \E p \in PodChoices : Key(p) \notin DOMAIN c.pods /\ c' = [c EXCEPT !.pods = Upd(c.pods, Key(p), p)] /\ UNCHANGED <<K, mgr>>
             /\ H([a |-> "AddPod", pod |-> p, handled |-> handled])
       \/ \E k \in DOMAIN c.pods : c.pods[k].ip = "" /\
             LET np == [c.pods[k] EXCEPT !.ip = IF k = "p1_na" THEN "a1" ELSE "a2"] IN
             H([a |-> "PodIP", key |-> k, handled |-> up /\ handled]) /\
             c' = [c EXCEPT !.pods[k] = np] /\ IF up /\ handled THEN Apply(OnUpdatePod(St(K, mgr), c', k, np)) ELSE UNCHANGED <<K, mgr>>
       \/ \E k \in DOMAIN c.pods : c' = [c EXCEPT !.pods = Without(c.pods, {k})] /\ H([a |-> "DeletePod", key |-> k, handled |-> up /\ handled]) /\
             IF up /\ handled THEN Apply(OnDeletePod(St(K, mgr), c', k, c.pods[k])) ELSE UNCHANGED <<K, mgr>>
Down == Tick /\ up /\ up' = FALSE /\ UNCHANGED <<c, K, mgr>> /\ lastSync' = Emp /\ H([a |-> "Down"])
Restart == /\ Tick /\ ~up /\ up' = TRUE /\ UNCHANGED c /\ H([a |-> "Restart"])
           /\ Apply(Sync(St(K, NoCluster), c)) /\ lastSync' = [pre |-> K, post |-> Sync(St(K, NoCluster), c).K]
Next == DoSync \/ PolicyEdit \/ PodEdit \/ Down \/ Restart
Spec == Init /\ [][Next]_vars

ForeignUntouchedM == ForeignPart(K) = ForeignPart(Foreign0)

\* classification of a synchronisation's outcome (as in Trace_NetPol)
StalePodChainsM(K2, D) == {n \in (DOMAIN OwnedChains(K2)) \ (DOMAIN D.chains) : Prefixed(n, "podc:")}
StaleBusyM(K2, D) == {n \in (DOMAIN OwnedChains(K2)) \ (DOMAIN D.chains) : Prefixed(n, "plcy:") /\ RefsChain(K2.chains, n)}
OnlyStalePodsM(K2, D) ==
    LET stale == StalePodChainsM(K2, D)
        K3 == [sets |-> K2.sets, chains |-> [n \in (DOMAIN K2.chains) \ stale |->
                  IF n \in {"ingress", "egress"} THEN SelectSeq(K2.chains[n], LAMBDA r : r.target \notin stale) ELSE K2.chains[n]]] IN
    stale # {} /\ SameOwned(K3, D)
SyncTag == IF lastSync = Emp THEN "none"
           ELSE LET D == Derived(c, Univ, AllDevs) IN
                IF SameOwned(lastSync.post, D) THEN "ok"
                ELSE IF StaleBusyM(lastSync.post, D) # {} \/ StaleBusyM(lastSync.pre, D) # {} THEN "stalePolicyChainInUse"
                ELSE IF OnlyStalePodsM(lastSync.post, D) THEN "stalePodChain"
                ELSE "unexplained"
ExactOrKnownM == SyncTag # "unexplained"
\* attack invariants: each counterexample is a shortest history that ends in one of the known shapes (replayed on the real code)
NotStalePodChainM == SyncTag # "stalePodChain"
NotStaleBusyM == SyncTag # "stalePolicyChainInUse"
NotExactAfterTwoPoliciesM == ~(SyncTag = "ok" /\ Cardinality(DOMAIN c.pols) = 2 /\ Chained(c) # {})
ExactM == SyncTag \in {"none", "ok"}
=============================================================================
