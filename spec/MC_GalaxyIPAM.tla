---------------------------- MODULE MC_GalaxyIPAM ----------------------------
(***************************************************************************)
(* Bounded model of galaxy-ipam for TLC: the operations of GalaxyIPAM      *)
(* (Call / Cont / CallOutcomes, i.e. one action per code segment) driven    *)
(* by an environment that creates, deletes and finishes pods (fresh UID per *)
(* incarnation), lets the pod informer lag, delivers events in order,       *)
(* schedules filter/bind like kube-scheduler, handles release events,       *)
(* resyncs, calls the release API, injects single faults.                   *)
(*                                                                          *)
(* Two uses: (1) exhaustive check of the C01-C04/C07/C10 invariants with    *)
(* Guards = AllGuards (the code as it is);  (2) attack configurations drop  *)
(* one guard: every counterexample TLC finds there is a minimal schedule    *)
(* that exploits the absence of that guard; `hist` carries it and the       *)
(* harness replays it against the real code.                                *)
(***************************************************************************)
EXTENDS GalaxyIPAM

CONSTANTS
    Scenario,        \* name of the scenario (selects M_* below)
    MaxInc,          \* incarnations per pod name
    MaxLive,         \* concurrently live operations
    MaxOps,          \* operations started in total
    MaxFaults,       \* injected faults in total
    MaxEnv,          \* environment steps other than pod lifecycle (scale, admin ...) in total
    Drop,            \* the guard an attack configuration removes ("" = none)
    OpsOn            \* operation types the environment may start: subset of OpTypes minus "syncpod" ("syncall" also turns the kubelet on)

MC_Guards == AllGuards \ {Drop}
VARIABLE hist        \* sequence of action descriptors (the schedule); excluded from the VIEW
mcvars == <<vars, cfgVars, hist>>

K(pool, kind, app, pod) == [pool |-> pool, kind |-> kind, app |-> app, pod |-> pod]
Sp(kind, app, pool, policy, ranges) == [kind |-> kind, app |-> app, pool |-> pool, policy |-> policy, ranges |-> ranges]

\* ---- scenarios: small worlds in which one family of properties is at stake
M_Specs ==
    CASE Scenario = "sts-default"   -> [x \in {"s-0"} |-> Sp("sts", "s", "", 0, <<>>)]
      [] Scenario = "sts-immutable" -> [x \in {"s-0"} |-> Sp("sts", "s", "", 1, <<>>)]
      [] Scenario = "sts-two"       -> ("s-0" :> Sp("sts", "s", "", 0, <<>>)) @@ ("s-1" :> Sp("sts", "s", "", 0, <<>>))
      [] Scenario = "dp-immutable"  -> ("d-a" :> Sp("dp", "d", "", 1, <<>>)) @@ ("d-b" :> Sp("dp", "d", "", 1, <<>>))
      [] Scenario = "dp-scale"      -> ("d-a" :> Sp("dp", "d", "", 1, <<>>)) @@ ("d-b" :> Sp("dp", "d", "", 1, <<>>))
      [] Scenario = "dp-pool"       -> ("d-a" :> Sp("dp", "d", "pl", 2, <<>>)) @@ ("e-a" :> Sp("dp", "e", "pl", 2, <<>>))
      \* C06: an immutable pod (holder when rescheduled), a default one, and a two-range pod, on a topology with a pool
      \* routable from two node subnets, a pool routable from one, and a node in no pool's subnet
      [] Scenario = "topo"          -> ("s-0" :> Sp("sts", "s", "", 1, <<>>)) @@ ("s-1" :> Sp("sts", "s", "", 0, <<>>))
      [] Scenario = "topo-ranges"   -> ("m-0" :> Sp("sts", "m", "", 1, << {"ip1"}, {"ip2", "ip3"} >>)) @@ ("s-1" :> Sp("sts", "s", "", 0, <<>>))
      \* the periodic pod-ip sync (syncall) over running pods: a default and an immutable statefulset pod
      [] Scenario = "sts-syncall"   -> ("s-0" :> Sp("sts", "s", "", 0, <<>>)) @@ ("s-1" :> Sp("sts", "s", "", 1, <<>>))
      [] OTHER                      -> [x \in {"s-0"} |-> Sp("sts", "s", "", 0, <<>>)]
Topo == Scenario \in {"topo", "topo-ranges"}
M_NodeSub == IF Topo THEN ("n1" :> "s1") @@ ("n2" :> "s2") @@ ("n3" :> "") ELSE ("n1" :> "s1") @@ ("n2" :> "s1")
M_Configs ==
    CASE Scenario = "dp-immutable" -> << [p1 |-> [subnets |-> {"s1"}, ips |-> {"ip1", "ip2", "ip3"}]] >>
      [] Scenario = "topo" -> << [p1 |-> [subnets |-> {"s1", "s2"}, ips |-> {"ip1"}], p2 |-> [subnets |-> {"s2"}, ips |-> {"ip2"}]] >>
      [] Scenario = "topo-ranges" -> << [p1 |-> [subnets |-> {"s1", "s2"}, ips |-> {"ip1"}], p2 |-> [subnets |-> {"s2"}, ips |-> {"ip2"}],
                                          p3 |-> [subnets |-> {"s1"}, ips |-> {"ip3"}]] >>
      [] OTHER -> << [p1 |-> [subnets |-> {"s1"}, ips |-> {"ip1", "ip2"}]] >>
M_CloudOn == Scenario \in {"sts-cloud"}
M_Sts == IF Scenario \in {"dp-immutable", "dp-pool", "dp-scale"} THEN Emp ELSE IF Scenario = "topo-ranges" THEN ("s" :> 2) @@ ("m" :> 1) ELSE ("s" :> 2)
M_Dp == IF Scenario = "dp-immutable" THEN ("d" :> 1) ELSE IF Scenario = "dp-scale" THEN ("d" :> 2) ELSE IF Scenario = "dp-pool" THEN ("d" :> 1) @@ ("e" :> 1) ELSE Emp
M_Pool == IF Scenario = "dp-pool" THEN ("pl" :> [size |-> 1, prealloc |-> FALSE]) ELSE Emp

Init ==
    /\ Specs = M_Specs /\ NodeSub = M_NodeSub /\ Configs = M_Configs /\ CloudOn = M_CloudOn
    /\ pools = M_Configs[1] /\ mem = [ip \in ConfIPs(M_Configs[1]) |-> FreeRec] /\ store = Emp /\ clock = 1
    /\ pods = Emp /\ lpods = Emp /\ pevq = <<>> /\ work = <<>>
    /\ sts = M_Sts /\ dp = M_Dp /\ poolobj = M_Pool /\ cm = 1 /\ cloud = Emp
    /\ ops = Emp /\ podlock = Emp /\ dplock = Emp /\ nscache = Emp /\ fev = <<>> /\ alive = TRUE /\ loaded = 1
    /\ filtered = Emp
    /\ ctr = [uid |-> 1, op |-> 1, inc |-> Emp, faults |-> 0, env |-> 0, fb |-> ""]
    /\ hist = <<>>

\* ctr.fb (topology scenarios only): the pod whose filter has just completed successfully with the informer caught up, and
\* since then nothing has happened but the start and the fault-free segments of its bind -- C06's "nothing else changes"
FbNext(w, h) ==
    IF ~Topo THEN ""
    ELSE IF h.a = "Step" /\ h.op \in DOMAIN ops /\ ops[h.op].type = "filter" /\ h.op \notin DOMAIN w.ops
      THEN LET pn == ops[h.op].loc.podname IN
           IF pn \in DOMAIN w.filtered /\ w.filtered[pn].uid = ops[h.op].uid /\ pn \in DOMAIN pods /\ pn \in DOMAIN lpods /\ lpods[pn] = pods[pn]
             THEN pn ELSE ""
    ELSE IF h.a = "StartBind" /\ h.pod = ctr.fb THEN ctr.fb
    ELSE IF h.a = "Step" /\ h.f = 0 /\ h.op \in DOMAIN ops /\ ops[h.op].type = "bind" /\ ops[h.op].loc.podname = ctr.fb THEN ctr.fb
    ELSE ""
Do(w, h) == SetWorld([w EXCEPT !.ctr.fb = FbNext(w, h)]) /\ hist' = Append(hist, h) /\ UNCHANGED cfgVars
LiveOps(type, pod) == {id \in DOMAIN ops : ops[id].type = type /\ (pod = "" \/ ops[id].loc.podname = pod)}
CanStart(type) == alive /\ type \in OpsOn /\ Cardinality(DOMAIN ops) < MaxLive /\ ctr.op <= MaxOps

CreatePod(n) ==
    /\ n \notin DOMAIN pods /\ (IF n \in DOMAIN ctr.inc THEN ctr.inc[n] ELSE 0) < MaxInc
    /\ Do(CreatePodW(n), [a |-> "CreatePod", pod |-> n])
DeletePod(n) == n \in DOMAIN pods /\ Do(DeletePodW(n), [a |-> "DeletePod", pod |-> n])
FinishPod(n) == n \in DOMAIN pods /\ pods[n].phase # "Done" /\ pods[n].node # "" /\ Do(SetPhaseW(n, "Done"), [a |-> "FinishPod", pod |-> n])
\* the kubelet starts a bound pod (only in configurations that run the periodic pod-ip sync: it is the only reader of "Running")
KubeletRun(n) ==
    /\ "syncall" \in OpsOn /\ n \in DOMAIN pods /\ pods[n].phase = "Pending" /\ pods[n].node # ""
    /\ Do(SetPhaseW(n, "Running"), [a |-> "KubeletRun", pod |-> n])
DeliverPod ==
    /\ pevq # <<>>
    \* the informer calls its handlers one after the other: nothing is delivered while the handler of a running pod's update
    \* (syncPodIP, an operation of its own) has not returned; that handler needs a free operation slot
    /\ LiveOps("syncpod", "") = {}
    /\ (Head(pevq).type = "upd" /\ Head(pevq).new.phase = "Running") =>
          ("syncall" \in OpsOn /\ alive /\ Cardinality(DOMAIN ops) < MaxLive /\ ctr.op <= MaxOps)
    /\ Do(DeliverPodW, [a |-> "DeliverPod"])
StartSyncAll == CanStart("syncall") /\ LiveOps("syncall", "") = {} /\ lpods # Emp /\ Do(StartSyncAllW, [a |-> "StartSyncAll"])
ScaleSts(app, r) ==
    /\ ctr.env < MaxEnv /\ app \in DOMAIN sts /\ sts[app] # r
    /\ Do([Cur EXCEPT !.sts = Put(sts, app, r), !.ctr.env = ctr.env + 1], [a |-> "ScaleSts", app |-> app, replicas |-> r])
ScaleDp(app, r) ==
    /\ ctr.env < MaxEnv /\ app \in DOMAIN dp /\ dp[app] # r
    /\ Do([Cur EXCEPT !.dp = Put(dp, app, r), !.ctr.env = ctr.env + 1], [a |-> "ScaleDp", app |-> app, replicas |-> r])

StartFilter(n) ==
    /\ CanStart("filter") /\ n \in DOMAIN pods /\ pods[n].node = "" /\ pods[n].phase = "Pending"
    /\ LiveOps("filter", n) = {} /\ LiveOps("bind", n) = {}
    /\ ~(n \in DOMAIN filtered /\ filtered[n].uid = pods[n].uid)
    /\ Do(StartFilterW(n), [a |-> "StartFilter", pod |-> n])
StartBind(n, node) ==
    /\ CanStart("bind") /\ n \in DOMAIN pods /\ pods[n].node = "" /\ pods[n].phase = "Pending"
    /\ LiveOps("bind", n) = {}
    /\ n \in DOMAIN filtered /\ filtered[n].uid = pods[n].uid /\ node \in filtered[n].nodes
    /\ Do(StartBindW(n, node), [a |-> "StartBind", pod |-> n, node |-> node])
StartUnbind == CanStart("unbind") /\ work # <<>> /\ Do(StartUnbindW, [a |-> "StartUnbind"])
StartResync == CanStart("resync") /\ LiveOps("resync", "") = {} /\ store # Emp /\ Do(StartResyncW, [a |-> "StartResync"])
StartApiRelease(ip) ==
    /\ CanStart("apirelease") /\ ip \in DOMAIN mem /\ ~IsFree(mem[ip]) /\ ~mem[ip].lab
    /\ Do(StartApiReleaseW(ip, mem[ip].key), [a |-> "StartApiRelease", ip |-> ip, key |-> mem[ip].key])

Step(id, f) ==
    /\ alive /\ id \in DOMAIN ops
    /\ f = 0 \/ ctr.faults < MaxFaults
    /\ \E w \in StepOutcomes(id, f, NoHint) :
         Do([w EXCEPT !.ctr.faults = ctr.faults + (IF f = 0 THEN 0 ELSE 1)], [a |-> "Step", op |-> id, f |-> f])

Next ==
    \/ \E n \in DOMAIN Specs : CreatePod(n) \/ DeletePod(n) \/ FinishPod(n) \/ StartFilter(n) \/ KubeletRun(n)
    \/ StartSyncAll
    \/ \E n \in DOMAIN Specs, node \in Nodes : StartBind(n, node)
    \/ DeliverPod \/ StartUnbind \/ StartResync
    \/ \E ip \in DOMAIN mem : StartApiRelease(ip)
    \/ \E app \in DOMAIN sts, r \in 0..2 : ScaleSts(app, r)
    \/ \E app \in DOMAIN dp, r \in 0..2 : ScaleDp(app, r)
    \/ \E id \in DOMAIN ops, f \in {0, 1} : Step(id, f)

Spec == Init /\ [][Next]_mcvars

(* ------------------------------------------------------------------ invariants (state form) *)
ToSetM(s) == {s[i] : i \in 1..Len(s)}
LiveM == {n \in DOMAIN pods : pods[n].phase # "Done"}
LiveBoundM == {n \in LiveM : pods[n].node # "" /\ Len(pods[n].ann) > 0}
\* C01
LiveAnnotationsDisjoint == \A p \in LiveM, q \in LiveM : p # q => ToSetM(pods[p].ann) \cap ToSetM(pods[q].ann) = {}
\* C04 (and C01): the IP a live pod was bound with stays keyed to that pod
LiveKeepsIP == alive => \A p \in LiveBoundM : \A ip \in ToSetM(pods[p].ann) : ip \in DOMAIN mem => mem[ip].key = KeyOf(pods[p])
\* C05
MemStoreAgreeM == alive => MemStoreAgreeExcept(mem, store, {})
\* C07
PoolCapM == alive => \A pl \in DOMAIN poolobj : Cardinality({ip \in DOMAIN mem : mem[ip].key.pool = pl}) <= poolobj[pl].size
\* C10
LiveAssignedToOwnNode == (CloudOn /\ alive) => \A p \in LiveBoundM : \A ip \in ToSetM(pods[p].ann) : ip \in DOMAIN cloud /\ cloud[ip] = pods[p].node
\* C06: what a live pod was bound with is routable from its node (the configuration does not change in these models)
RoutableM == \A p \in LiveBoundM : \A ip \in ToSetM(pods[p].ann) : ip \in ConfIPs(pools) /\ NodeSub[pods[p].node] \in SubnetsOf(pools, ip)
(* ------------------------------------------------------------------ properties of steps (action form) *)
Common == (DOMAIN mem) \cap (DOMAIN mem')
FreedM == {ip \in Common : ~IsFree(mem[ip]) /\ IsFree(mem'[ip])}
RekeyedM == {ip \in Common : ~IsFree(mem[ip]) /\ ~IsFree(mem'[ip]) /\ mem[ip].key # mem'[ip].key}
FreshM == {ip \in Common : IsFree(mem[ip]) /\ ~IsFree(mem'[ip])}
\* the operation that made this step (0 when the step is an environment step)
Actor == IF hist' # hist /\ hist'[Len(hist')].a = "Step" THEN hist'[Len(hist')].op ELSE 0
ActorType == IF Actor # 0 /\ Actor \in DOMAIN ops THEN ops[Actor].type ELSE "env"
GoneM(k, uid, ip) == ~(k.pod \in DOMAIN pods /\ pods[k.pod].phase # "Done" /\
                       (uid = pods[k.pod].uid \/ ip \in ToSetM(pods[k.pod].ann)))
\* C02: a pod that still holds an IP is never given a fresh one; a deployment replacement takes a reserved IP
StickyM == [][\A ip \in FreshM : mem'[ip].key.pod # "" /\ ActorType = "bind" =>
                 KeyIPs(mem, mem'[ip].key) = {}]_mcvars
\* C03: never/pool allocations are released by the API only; nothing held by a live pod is released;
\*      an immutable statefulset IP is released only when the app is gone or scaled below the pod
ReleaseJustifiedM ==
    [][\A ip \in FreedM :
          LET k == mem[ip].key  pl == mem[ip].policy IN
          \/ ActorType = "apirelease"
          \/ /\ k.pod # "" /\ GoneM(k, mem[ip].uid, ip)
             /\ pl # 2 /\ k.pool = ""
             /\ (pl = 1 /\ k.kind = "sts") => (k.app \notin DOMAIN sts \/ sts[k.app] < IndexOf(k.pod) + 1)
             \* an immutable deployment IP is released only while the app holds more IPs than replicas (or has none left)
             \* (measured against the replica count the releasing operation read: a scale-up between its reading and its release is a
             \*  benign race of the environment, two releases that both saw the same surplus are not)
             /\ (pl = 1 /\ k.kind = "dp" /\ k.pool = "") =>
                    LET rep == IF Actor \in DOMAIN ops /\ ops[Actor].type \in {"unbind", "resync"} THEN ops[Actor].loc.replicas ELSE DpReplicas(k.app) IN
                    (DpReplicas(k.app) = 0 \/ rep = 0 \/ Cardinality({x \in DOMAIN mem : HasPrefix(mem[x].key, KeyPrefixOf(k))}) > rep)]_mcvars
\* C10
CloudSingleNodeM == [][\A ip \in (DOMAIN cloud) \cap (DOMAIN cloud') : cloud'[ip] = cloud[ip]]_mcvars
UnassignBeforeHandoverM == [][CloudOn => \A ip \in FreedM \cup RekeyedM : ip \notin DOMAIN cloud]_mcvars
NoUnassignWhileLiveM ==
    [][\A ip \in DOMAIN cloud : ip \notin DOMAIN cloud' =>
          ~\E p \in LiveBoundM : ip \in ToSetM(pods[p].ann) /\ ip \in DOMAIN mem /\ mem[ip].key = KeyOf(pods[p])]_mcvars

\* C06 (operations one at a time, MaxLive = 1): a completed filter offers a pod that holds IPs only nodes from which they are
\* routable, and a fresh default-policy pod exactly the nodes that have a free routable IP
FilterOffersM ==
    [][\A n \in DOMAIN filtered' :
          ((n \notin DOMAIN filtered \/ filtered'[n] # filtered[n]) /\ n \in DOMAIN pods /\ filtered'[n].uid = pods[n].uid) =>
            LET p == pods[n]  held == KeyIPs(mem, KeyOf(p))  N == filtered'[n].nodes IN
            /\ \A x \in N : \A ip \in held : NodeSub[x] \in SubnetsOf(pools, ip)
            /\ (held = {} /\ p.policy = 0 /\ p.pool = "" /\ Len(p.ranges) = 0) =>
                  N = {x \in Nodes : \E ip \in ConfIPs(pools) : IsFree(mem[ip]) /\ NodeSub[x] \in SubnetsOf(pools, ip)}]_mcvars
\* C06: filter offered the node, nothing else changed, no fault: the bind succeeds, or refuses because an earlier
\* same-named pod still holds the IP
FilterImpliesBindM ==
    [][(ctr.fb # "" /\ Actor # 0 /\ Actor \in DOMAIN ops /\ ops[Actor].type = "bind" /\ ops[Actor].loc.podname = ctr.fb /\
        Actor \notin DOMAIN ops' /\ hist'[Len(hist')].f = 0) =>
          \/ ctr.fb \in DOMAIN pods' /\ pods'[ctr.fb].node # ""
          \/ \E ip \in KeyIPs(mem, KeyOf(pods[ctr.fb])) : mem[ip].uid # "" /\ mem[ip].uid # pods[ctr.fb].uid]_mcvars

\* vacuity probes (expected to be VIOLATED: used by lib to show that a configuration reaches the situation)
ProbeSyncAllResurrects == \A id \in DOMAIN ops : ~(ops[id].type = "syncall" /\ ops[id].pc = "specific")
MC_IPSeq == <<"ip1", "ip2", "ip3">>
TsVals == {mem[ip].ts : ip \in DOMAIN mem}
RankOf(t) == Cardinality({x \in TsVals : x < t})
NormMem == [ip \in DOMAIN mem |-> [mem[ip] EXCEPT !.ts = RankOf(@)]]
NormStore == [ip \in DOMAIN store |-> [store[ip] EXCEPT !.ts = 0]]
View == <<NormMem, NormStore, pools, pods, lpods, pevq, work, sts, dp, poolobj, cm, cloud, ops, podlock, dplock, nscache, fev,
          alive, loaded, filtered, ctr>>
=============================================================================
