---------------------------- MODULE MC_IPAMCore ----------------------------
EXTENDS IPAMCoreSpec
K(pool, kind, app, pod) == [pool |-> pool, kind |-> kind, app |-> app, pod |-> pod]
MC_IPSeq == <<"ip1", "ip2", "ip3">>
MC_ConfigsA == << [p1 |-> [subnets |-> {"s1"}, ips |-> {"ip1", "ip2"}], p2 |-> [subnets |-> {"s2"}, ips |-> {"ip3"}]],
                  [p1 |-> [subnets |-> {"s1"}, ips |-> {"ip1"}],        p2 |-> [subnets |-> {"s2"}, ips |-> {"ip2", "ip3"}]] >>
MC_ConfigsOne == << [p1 |-> [subnets |-> {"s1"}, ips |-> {"ip1", "ip2", "ip3"}]] >>
MC_Keys == {K("", "sts", "s", "s-0"), K("", "dp", "d", "d-x"), K("", "dp", "d", "")}
MC_KeysSmall == {K("", "sts", "s", "s-0"), K("", "dp", "d", "")}
MC_Attrs == {Attr(0, "u1", "n1"), Attr(1, "u2", "")}
MC_AttrsSmall == {Attr(1, "u1", "n1")}
MC_AdminKey == K("adm", "", "", "")
MC_RangeLists == { <<{"ip1", "ip2"}, {"ip3"}>>, <<{"ip2"}, {"ip1", "ip3"}>> }
MC_RangeLists3 == { <<{"ip1", "ip2"}, {"ip2", "ip3"}>>, <<{"ip1"}, {"ip2"}, {"ip3"}>>, <<{"ip3"}, {"ip1", "ip2"}>> }
MC_FeatC05 == {"alloc", "rekey", "release", "multi", "reload", "crash"}
MC_FeatC08 == {"alloc", "release", "multi", "admin", "crash"}
MC_FeatC09 == {"alloc", "release", "specific", "reload", "admin"}
MC_FeatAll == {"alloc", "rekey", "release", "multi", "specific", "reload", "admin", "crash"}
=============================================================================
