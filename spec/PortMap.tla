-------------------------------- MODULE PortMap --------------------------------
(***************************************************************************)
(* C14: host-port mappings in the NAT table (pkg/network/portmapping).      *)
(* Abstract NAT table:                                                       *)
(*   hp      mappings that have a redirect rule in KUBE-HOSTPORTS            *)
(*   chains  mappings that have their KUBE-HP-* chain (masquerade + DNAT)    *)
(*   stale   left-over KUBE-HP-* chains of pods that no longer exist         *)
(*   foreign chains and rules of others: never change (not a variable)       *)
(* Setup(P) / Clean(P) / SyncAll(Ps) are the three entry points.  TLC checks *)
(* CleanIsInverse, OthersUntouched, SyncExact on all bounded histories and   *)
(* writes, for every history, the table expected after each operation;       *)
(* pmdrive runs the histories on the real PortMappingHandler over a fake NAT *)
(* table preloaded with stale and foreign chains and compares; it also       *)
(* checks with real sockets that handed-out host ports are distinct, held    *)
(* until Close and released by a failed open.                                *)
(***************************************************************************)
EXTENDS Integers, Sequences, FiniteSets, TLC, Json
CONSTANTS MaxOps, OutFile

\* mapping universe: pod -> its mappings
Pods == {"p1", "p2", "p3"}
MapsOf(p) == CASE p = "p1" -> {"p1:8080/tcp", "p1:5353/udp@10.9.9.9"}
               [] p = "p2" -> {"p2:8081/tcp"}
               [] OTHER    -> {"p3:8080/tcp"}          \* same host port as p1: two rules may coexist in the table
AllMaps == UNION {MapsOf(p) : p \in Pods}
StaleSets == SUBSET {"S1", "S2"}

\* old: mappings whose chain holds the rules of an earlier pod with the same name and ports but another address
Setup(t, P) == [t EXCEPT !.hp = t.hp \cup P, !.chains = t.chains \cup P, !.old = t.old \ P]
SetupOld(t, P) == [t EXCEPT !.hp = t.hp \cup P, !.chains = t.chains \cup P, !.old = t.old \cup P]
Clean(t, P) == [t EXCEPT !.hp = t.hp \ P, !.chains = t.chains \ P, !.old = t.old \ P]
SyncAll(t, Ps) == [hp |-> Ps, chains |-> Ps, stale |-> {}, old |-> {}]

Ops == {[op |-> "setup", pod |-> p] : p \in Pods} \cup {[op |-> "clean", pod |-> p] : p \in Pods} \cup {[op |-> "setupold", pod |-> "p1"]}
       \cup {[op |-> "sync", pods |-> S] : S \in SUBSET Pods}
Apply(t, o) == CASE o.op = "setup" -> Setup(t, MapsOf(o.pod))
                 [] o.op = "setupold" -> SetupOld(t, MapsOf(o.pod))
                 [] o.op = "clean" -> Clean(t, MapsOf(o.pod))
                 [] OTHER -> SyncAll(t, UNION {MapsOf(p) : p \in o.pods})
OpSeqs == UNION {[1..n -> Ops] : n \in 1..MaxOps}
RECURSIVE Run(_, _, _)
Run(t, ops, i) == IF i > Len(ops) THEN <<>> ELSE LET t2 == Apply(t, ops[i]) IN <<t2>> \o Run(t2, ops, i + 1)

T0(stale) == [hp |-> {}, chains |-> {}, stale |-> stale, old |-> {}]
\* laws
CleanIsInverse == \A st \in StaleSets, p \in Pods, q \in Pods :
    LET t == Setup(T0(st), MapsOf(q)) IN p # q => Clean(Setup(t, MapsOf(p)), MapsOf(p)) = t
OthersUntouched == \A st \in StaleSets, p \in Pods, q \in Pods :
    p # q => LET t == Setup(T0(st), MapsOf(q)) IN
             /\ MapsOf(q) \subseteq Setup(t, MapsOf(p)).hp /\ MapsOf(q) \subseteq Clean(t, MapsOf(p)).hp
             /\ Clean(t, MapsOf(p)).stale = st
SyncExact == \A st \in StaleSets, S \in SUBSET Pods, q \in Pods :
    LET t == SyncAll(Setup(T0(st), MapsOf(q)), UNION {MapsOf(p) : p \in S}) IN
    t.hp = UNION {MapsOf(p) : p \in S} /\ t.chains = t.hp /\ t.stale = {} /\ t.old = {}
ASSUME CleanIsInverse /\ OthersUntouched /\ SyncExact
Vectors == {[stale |-> st, ops |-> os, expect |-> Run(T0(st), os, 1)] : st \in StaleSets, os \in OpSeqs}
ASSUME JsonSerialize(OutFile, [n |-> Cardinality(Vectors), vectors |-> Vectors])
ASSUME PrintT(<<"VECTORS", Cardinality(Vectors)>>)
VARIABLE x
Init == x = 0
Next == x' = x
=============================================================================
