------------------------------ MODULE GalaxyIPAM ------------------------------
(***************************************************************************)
(* galaxy-ipam's scheduler plugin (pkg/ipam/schedulerplugin) and its HTTP  *)
(* API (pkg/ipam/api) around the IPAM object of IPAMCore.                   *)
(*                                                                          *)
(* One action = one SEGMENT of an operation: the code between two           *)
(* consecutive interposable points (an IPAM method call, an API-server      *)
(* call, a pod-lister read, a cloud-provider call, a keyed-lock             *)
(* acquisition).  For an operation record o                                 *)
(*     Call(o)        is the call the operation is parked in front of,      *)
(*     Cont(o, r)     is the set of operation records after that call       *)
(*                    returned r (control flow of the plugin code),         *)
(* and the effect of the call on the world is the same for every            *)
(* operation (CallOutcomes).  Trace_GalaxyIPAM binds exactly these three    *)
(* to the events recorded from the real code.                               *)
(*                                                                          *)
(* What looks wrong in the code is modelled as it is (see DESIGN.md 8):     *)
(* unbind does not compare the event's UID with the stored one, Bind uses   *)
(* the lister's pod with the scheduler's UID, no unassign on re-bind.       *)
(* Each such guard is a member of Guards when the code has it.              *)
(***************************************************************************)
EXTENDS IPAMCore

CONSTANTS
    BindGiveUpEarly, \* TRUE: the retry loop may end after any failed try (its 3 s deadline is wall-clock); FALSE: only after MaxBindTries
    MaxBindTries, \* bound on the retries of the pods/binding call (timing dependent in the code: 500 ms ticks for 3 s)
    Guards        \* the guards the code has (AllGuards for the code as it is; attack configurations drop one)

\* configuration of one run; never changes after Init (variables so that one TLC run can validate traces of
\* different scenarios)
VARIABLES
    Specs,        \* pod name -> [kind, app, pool, policy, ranges]   (static identity of a pod name)
    NodeSub,      \* node -> node subnet ("" = in no configured subnet)
    Configs,      \* sequence of pool configurations
    CloudOn       \* BOOLEAN: a cloud provider is configured
cfgVars == <<Specs, NodeSub, Configs, CloudOn>>
OpTypes == {"filter", "bind", "unbind", "resync", "apirelease", "poolupsert", "reload", "syncpod", "preempt", "syncall"}
\* syncall: the periodic syncPodIPsIntoDB -- one unlocked listing of the informer's pods, then syncPodIP (the body of
\* "syncpod") for every running pod of that snapshot in turn; the snapshot may be stale by the time a pod's turn comes
\* preempt (the scheduler's preemption extender) runs the same getSubnet as filter (guard "podlock:preempt": it holds the pod
\* lock while doing so; the code did not before a fix: commit)
IsFilter(o) == o.type \in {"filter", "preempt"}
\* ("bindLockFirst" -- Bind taking the pod lock before its lister lookup -- is a switch the code does not have)
AllGuards == {"unbindUid", "bindStaleLister", "bindUidGuard", "bindPoolSize", "bindReuseReserve", "resyncReread", "apiDoubleCheck", "syncReread"}
             \cup {"podlock:" \o t : t \in OpTypes} \cup {"dplock:" \o t : t \in OpTypes}

VARIABLES
    mem, store, pools, clock,          \* IPAM object (IPAMCore)
    pods, lpods, pevq, work,           \* API truth, informer cache, undelivered pod events, release events
    sts, dp, poolobj, cm,              \* workloads and Pool objects (fresh listers), config in the config map
    cloud,                             \* provider's view: ip -> node
    ops, podlock, dplock, nscache,     \* operations, keyed locks (key -> op id), node-subnet cache
    fev, alive, loaded, filtered,      \* reservation events, process up, loaded config, scheduler's last filter results
    ctr                                \* counters: next uid, next op id, incarnations per name, budgets used

ipamVars == <<mem, store, pools, clock>>
envVars == <<pods, lpods, pevq, work, sts, dp, poolobj, cm, cloud, fev>>
vars == <<mem, store, pools, clock, pods, lpods, pevq, work, sts, dp, poolobj, cm, cloud,
          ops, podlock, dplock, nscache, fev, alive, loaded, filtered, ctr>>

Nodes == DOMAIN NodeSub
Range(s) == {s[i] : i \in 1..Len(s)}
Min(S) == CHOOSE x \in S : \A y \in S : x <= y


(* ------------------------------------------------------------------ small helpers *)
Digits == <<"0", "1", "2", "3", "4", "5", "6", "7", "8", "9">>
\* order of subnet names = order of their CIDR strings ("s1" < "s2" ...)
Order2(s) == CHOOSE i \in 1..9 : s = "s" \o Digits[i + 1]
RECURSIVE MinSeq(_)
MinSeq(S) == IF S = {} THEN <<>> ELSE LET m == CHOOSE x \in S : \A y \in S : x <= y IN <<m>> \o MinSeq(S \ {m})
\* the ranges whose lookup returned "none"
SelectSeqIdx(ranges, ips) ==
    LET idx == MinSeq({i \in 1..Len(ranges) : ips[i] = "none"}) IN [j \in 1..Len(idx) |-> ranges[idx[j]]]
RECURSIVE MinSeqBy(_)
MinSeqBy(S) == IF S = {} THEN <<>>
               ELSE LET m == CHOOSE x \in S : \A y \in S : Order2(x) <= Order2(y) IN <<m>> \o MinSeqBy(S \ {m})
SortSubnets(S) == MinSeqBy(S)
NotNone(x) == x # "none"
OwnedSeq(ips) == SelectSeq(ips, NotNone)
RECURSIVE Inter(_, _, _)
Inter(seq, i, acc) == IF i > Len(seq) THEN acc ELSE Inter(seq, i + 1, IF acc = {"*"} THEN seq[i] ELSE acc \cap seq[i])

(* ------------------------------------------------------------------ pods and keys *)
NoPod == [name |-> ""]
KindStr(k) == IF k = "bare" THEN "NULL" ELSE k
AppStr(p) == IF p.kind = "bare" THEN "NULL" ELSE p.app
KeyOf(p) == [pool |-> p.pool, kind |-> KindStr(p.kind), app |-> AppStr(p), pod |-> p.name]
PoolPrefix(p) == IF p.pool # "" THEN [pool |-> p.pool, kind |-> "", app |-> "", pod |-> ""]
                 ELSE [pool |-> "", kind |-> KindStr(p.kind), app |-> AppStr(p), pod |-> ""]
PoolAppPrefix(p) == [pool |-> p.pool, kind |-> KindStr(p.kind), app |-> AppStr(p), pod |-> ""]
PolicyOf(p) == IF p.pool # "" THEN 2 ELSE p.policy
IsDpKey(k) == k.kind = "dp"
KeyPrefixOf(k) == IF k.pool # "" THEN [pool |-> k.pool, kind |-> "", app |-> "", pod |-> ""]
                  ELSE [pool |-> "", kind |-> k.kind, app |-> k.app, pod |-> ""]
\* numeric suffix of a pod name ("s-0" -> 0); names without one are not stateful
HasIndex(name) == \E a \in {"s", "m", "b", "t", "d", "e"}, i \in 1..10 : name = a \o "-" \o Digits[i]
IndexOf(name) == CHOOSE i \in 0..9 : \E a \in {"s", "m", "b", "t", "d", "e"} : name = a \o "-" \o Digits[i + 1]
\* supportReserveIPPolicy(keyObj, policy) = nil ?
Supports(k, policy) ==
    \/ k.kind \in {"dp", "sts"}
    \/ HasIndex(k.pod) /\ policy = 2      \* other kinds: never is fine for indexed names; immutable needs a scalable CRD (none here)

Attr0 == Attr(0, "", "")
NodeSubnetNow(n) == IF NodeSub[n] \in AllSubnets(pools) THEN NodeSub[n] ELSE "none"
NodeSubnetOf(n) == IF n \in DOMAIN nscache THEN nscache[n] ELSE NodeSubnetNow(n)

(* ------------------------------------------------------------------ operations *)
Loc0 == [ips |-> <<>>, reserved |-> {}, unalloc |-> <<>>, allocsub |-> {}, replicas |-> 0, sized |-> FALSE,
         reserve |-> FALSE, subnets |-> {}, rs |-> "", i |-> 1, items |-> <<>>, fip |-> [key |-> NoKey, uid |-> "", node |-> "", policy |-> 0],
         tries |-> 0, lpod |-> NoPod, key |-> NoKey, policy |-> 0, oldK |-> NoKey, newK |-> NoKey, isdp |-> FALSE,
         subs |-> {}, need |-> 0, res |-> [ok |-> TRUE], enq |-> FALSE, ip |-> "", podname |-> ""]

NewOp(type, pc, pod, node, uid) ==
    [type |-> type, pc |-> pc, pod |-> pod, node |-> node, uid |-> uid, loc |-> Loc0]
Goto(o, pc) == [o EXCEPT !.pc = pc]
Finish(o, ok) == [o EXCEPT !.pc = "done", !.loc.res = [ok |-> ok]]
FinishNodes(o, subnets) ==
    [o EXCEPT !.pc = "done", !.loc.res = [ok |-> TRUE], !.loc.subnets = subnets]

(* ---- the call an operation is parked in front of: [name, args] ---- *)
C(name, args) == [name |-> name, args |-> args]
AttrOfPod(p, node) == Attr(PolicyOf(p), p.uid, node)

Call(o) ==
    LET L == o.loc IN
    CASE o.pc = "lockpod"      -> C("lockpod", [key |-> L.podname])
      [] o.pc = "lockdp"       -> C("lockdp", [key |-> L.oldK])
      [] o.pc \in {"podlist", "podlist0"} -> C("podlist", [pod |-> L.podname])
      [] o.pc = "podlistall"   -> C("podlistall", [x \in {} |-> 0])
      [] o.pc = "podget"       -> C("podget", [pod |-> L.podname])
      [] o.pc \in {"bykey", "bykey2"} -> C("ByKeyAndIPRanges", [key |-> L.key, ranges |-> IF o.type \in {"filter", "preempt", "bind"} THEN L.lpod.ranges ELSE <<>>])
      [] o.pc = "bykey_r"      -> C("ByKeyAndIPRanges", [key |-> L.key, ranges |-> <<>>])
      [] o.pc = "bykey_c"      -> C("ByKeyAndIPRanges", [key |-> L.key, ranges |-> <<>>])
      [] o.pc = "byprefix"     -> C("ByPrefix", [prefix |-> L.oldK])
      [] o.pc = "byprefixall"  -> C("ByPrefix", [prefix |-> NoKey])
      [] o.pc = "byip"         -> C("ByIP", [ip |-> L.ip])
      [] o.pc = "first"        -> C("First", [key |-> L.key])
      [] o.pc = "nodesubnets"  -> C("NodeSubnetsByIPRanges", [ranges |-> L.unalloc])
      [] o.pc = "allocwithkey" -> C("AllocateInSubnetWithKey", [oldK |-> L.oldK, newK |-> L.key, subnet |-> L.rs, attr |-> Attr(L.policy, L.lpod.uid, "")])
      [] o.pc = "allocwithkey_b" -> C("AllocateInSubnetWithKey", [oldK |-> PoolPrefix(L.lpod), newK |-> L.key, subnet |-> L.rs, attr |-> Attr(L.policy, L.lpod.uid, o.node)])
      [] o.pc = "allocinsubnet" -> C("AllocateInSubnet", [key |-> L.key, subnet |-> L.rs, attr |-> IF o.type = "poolupsert" THEN Attr(2, "", "") ELSE Attr(L.policy, L.lpod.uid, "")])
      [] o.pc = "allocmulti"   -> C("AllocateMulti", [key |-> L.key, subnet |-> L.rs, ranges |-> L.unalloc, attr |-> Attr(L.policy, L.lpod.uid, o.node)])
      [] o.pc = "updateattr"   -> C("UpdateAttr", [key |-> L.key, ip |-> L.ips[L.i], attr |-> Attr(L.policy, L.lpod.uid, o.node)])
      [] o.pc = "assign"       -> C("AssignIP", [node |-> o.node, ip |-> L.ips[L.i]])
      [] o.pc = "unassign"     -> C("UnAssignIP", [node |-> L.fip.node, ip |-> L.ip])
      [] o.pc = "unassign_c"   -> C("UnAssignIP", [node |-> mem[L.ips[L.i]].node, ip |-> L.ips[L.i]])
      [] o.pc = "reserve"      -> C("ReserveIP", [oldK |-> L.oldK, newK |-> L.newK, attr |-> Attr0])
      [] o.pc = "reserve_u"    -> C("ReserveIP", [oldK |-> L.key, newK |-> L.key, attr |-> Attr0])
      [] o.pc = "releaseips"   -> C("ReleaseIPs", [want |-> [ip \in Range(L.ips) |-> L.key]])
      [] o.pc = "release"      -> C("Release", [key |-> L.key, ip |-> L.ip])
      [] o.pc = "specific"     -> C("AllocateSpecificIP", [key |-> L.key, ip |-> L.ips[L.i], attr |-> Attr(L.policy, L.lpod.uid, L.lpod.node)])
      [] o.pc = "binding"      -> C("binding", [pod |-> L.podname, node |-> o.node, uid |-> o.uid, ann |-> L.ips])
      [] o.pc = "cmget"        -> C("cmget", [x \in {} |-> 0])
      [] o.pc = "configure"    -> C("ConfigurePool", [x \in {} |-> 0])
      [] OTHER                 -> C("done", [x \in {} |-> 0])

(* ---- resync: next item of the check list ---- *)
NextItem(o) ==
    LET L == o.loc IN
    IF L.i > Len(L.items) THEN Finish(o, TRUE)
    ELSE [o EXCEPT !.pc = "lockpod", !.loc.ip = L.items[L.i].ip, !.loc.key = L.items[L.i].key,
                   !.loc.podname = L.items[L.i].key.pod, !.loc.i = L.i + 1]

(* ---- release / reserve decision shared by unbind and resync (unbindDpPod, unbindNoneDpPod) ---- *)
\* sets pc to the first call of the decision; L.key, L.policy, L.isdp describe the allocation
RelRelease(o) == Goto(o, "bykey_r")
RelReserve(o, oldK, newK) == [o EXCEPT !.pc = "reserve", !.loc.oldK = oldK, !.loc.newK = newK]
SubDone(o, ok) ==
    IF o.type = "resync" THEN NextItem(o) ELSE Finish(o, ok)

StsReplicas(app) == IF app \in DOMAIN sts THEN sts[app] ELSE -1     \* -1: the statefulset does not exist
DpReplicas(app) == IF app \in DOMAIN dp THEN dp[app] ELSE 0

RelDecide(o) ==
    LET k == o.loc.key  pl == o.loc.policy  prefix == KeyPrefixOf(k) IN
    IF IsDpKey(k)
      THEN IF pl = 0 THEN RelRelease(o)
           ELSE IF pl = 2 THEN (IF k # prefix THEN RelReserve(o, k, prefix) ELSE SubDone(o, TRUE))
           ELSE IF DpReplicas(k.app) = 0 THEN RelRelease(o)
           ELSE [o EXCEPT !.pc = "lockdp", !.loc.oldK = prefix, !.loc.replicas = DpReplicas(k.app)]
      ELSE IF pl = 0 \/ ~Supports(k, pl) THEN RelRelease(o)
           ELSE IF pl = 2 THEN RelReserve(o, k, k)
           ELSE IF k.kind = "sts"
                  THEN IF StsReplicas(k.app) < 0 THEN RelRelease(o)
                       ELSE IF StsReplicas(k.app) < IndexOf(k.pod) + 1 THEN RelRelease(o)
                       ELSE RelReserve(o, k, k)
                  ELSE SubDone(o, FALSE)      \* "Unknown app"

(* ---- bind: after the IPs are known, per IP assign / update attr, then the binding call ---- *)
RECURSIVE BindSkip(_)
BindSkip(o) ==
    LET L == o.loc IN
    IF L.i > Len(L.ips) THEN Goto(o, "binding")
    ELSE IF CloudOn THEN Goto(o, "assign")
    ELSE IF L.ips[L.i] \in L.reserved THEN Goto(o, "updateattr")
    ELSE BindSkip([o EXCEPT !.loc.i = L.i + 1])
BindNextIP_(o) == BindSkip([o EXCEPT !.loc.i = o.loc.i + 1])

\* syncall: the next running pod of the listed snapshot (L.items, position L.need), or the end of the pass
RECURSIVE SyncAllNext(_)
SyncAllNext(o) ==
    LET L == o.loc IN
    IF L.need > Len(L.items) THEN Finish(o, TRUE)
    ELSE LET p == L.items[L.need] IN
         IF p.phase # "Running" THEN SyncAllNext([o EXCEPT !.loc.need = L.need + 1])
         ELSE [o EXCEPT !.pc = "lockpod", !.loc.lpod = p, !.loc.key = KeyOf(p), !.loc.policy = PolicyOf(p), !.loc.podname = p.name,
                        !.loc.ips = p.ann, !.loc.i = 1, !.loc.need = L.need + 1]
SyncEnd(o) == IF o.type = "syncall" THEN SyncAllNext(o) ELSE Finish(o, TRUE)
SyncNext(o) ==
    IF o.loc.i >= Len(o.loc.ips) THEN SyncEnd(o)
    ELSE [o EXCEPT !.pc = "byip", !.loc.i = o.loc.i + 1, !.loc.ip = o.loc.ips[o.loc.i + 1]]

(* ---- filter: what follows getAvailableSubnet ---- *)
FilterAfterAvail(o, subnets, reserve) ==
    LET L == o.loc
        ss == IF L.allocsub # {} THEN subnets \cap L.allocsub ELSE subnets IN
    IF (reserve \/ L.sized) /\ ss # {}
      THEN LET rs == CHOOSE s \in ss : \A t \in ss : Order2(s) <= Order2(t) IN
           IF reserve THEN [o EXCEPT !.pc = "allocwithkey", !.loc.rs = rs, !.loc.reserve = TRUE]
           ELSE [o EXCEPT !.pc = "allocinsubnet", !.loc.rs = rs]
      ELSE FinishNodes(o, ss)

(* ---- continuation after the call returned r ---- *)
Cont(o, r) ==
    LET L == o.loc  p == L.lpod IN
    CASE
    (* ======== filter ======== *)
      IsFilter(o) /\ o.pc = "lockpod" -> {Goto(o, "bykey")}
   [] IsFilter(o) /\ o.pc = "bykey" ->
        LET ips == r.ips
            owned == {ips[i] : i \in {j \in 1..Len(ips) : ips[j] # "none"}}
            unalloc == IF Len(p.ranges) = 0 THEN <<>> ELSE SelectSeqIdx(p.ranges, ips)
            allocsub == IF owned = {} THEN {} ELSE Inter([i \in 1..Len(OwnedSeq(ips)) |-> SubnetsOf(pools, OwnedSeq(ips)[i])], 1, {"*"})
            o1 == [o EXCEPT !.loc.unalloc = unalloc, !.loc.allocsub = IF Len(p.ranges) = 0 THEN {} ELSE allocsub]
        IN IF Len(p.ranges) = 0 /\ Len(ips) > 0 THEN {FinishNodes(o, SubnetsOf(pools, ips[1]))}
           ELSE IF Len(p.ranges) > 0 /\ Len(unalloc) = 0 THEN {FinishNodes(o, allocsub)}
           ELSE IF L.policy # 0 /\ ~Supports(L.key, L.policy) THEN {Finish(o, FALSE)}
           ELSE IF p.kind = "dp"
             THEN LET sized == p.pool # "" /\ p.pool \in DOMAIN poolobj
                      rep == IF sized THEN poolobj[p.pool].size ELSE DpReplicas(p.app) IN
                  {[o1 EXCEPT !.pc = "lockdp", !.loc.oldK = PoolPrefix(p), !.loc.sized = sized, !.loc.replicas = rep]}
             ELSE {Goto(o1, "nodesubnets")}
   [] IsFilter(o) /\ o.pc = "lockdp" ->
        IF L.policy # 0
          THEN IF Len(L.unalloc) > 0 THEN {Finish(o, FALSE)} ELSE {Goto(o, "byprefix")}
          ELSE {Goto(o, "nodesubnets")}
   [] IsFilter(o) /\ o.pc = "byprefix" ->
        LET ips == Range(r.ips)
            used == {ip \in ips : mem[ip].key # L.oldK /\
                                  (L.sized \/ p.pool = "" \/ HasPrefix(mem[ip].key, PoolAppPrefix(p)))}
            unusedSub == UNION {SubnetsOf(pools, ip) : ip \in {x \in ips : mem[x].key = L.oldK}} IN
        IF Cardinality(used) >= L.replicas THEN {Finish(o, FALSE)}
        ELSE IF unusedSub # {} THEN {FilterAfterAvail(o, unusedSub, TRUE)}
        ELSE {Goto(o, "nodesubnets")}
   [] IsFilter(o) /\ o.pc = "nodesubnets" -> {FilterAfterAvail(o, Range(r.subnets), FALSE)}
   [] IsFilter(o) /\ o.pc = "allocwithkey" -> IF r.ok THEN {Goto(o, "first")} ELSE {Finish(o, FALSE)}
   \* (only preempt, which holds no pod lock, can find the IP it has just taken gone again: it then fails)
   [] IsFilter(o) /\ o.pc = "first" -> IF r.ip = "none" THEN {Finish(o, FALSE)} ELSE {FinishNodes(o, {L.rs})}
   [] IsFilter(o) /\ o.pc = "allocinsubnet" -> IF r.ok THEN {FinishNodes(o, {L.rs})} ELSE {Finish(o, FALSE)}
    (* ======== bind ======== *)
   [] o.type = "bind" /\ o.pc = "lockpod" -> {Goto(o, IF "bindLockFirst" \in Guards THEN "podlist" ELSE "bykey")}
   [] o.type = "bind" /\ o.pc = "podlist" ->
        IF ~r.found THEN {Finish(o, FALSE)}
        ELSE LET lp == lpods[L.podname] IN
             IF "bindStaleLister" \in Guards /\ lp.uid # o.uid THEN {Finish(o, FALSE)}     \* stale cache: rejected
             ELSE {[o EXCEPT !.pc = IF "bindLockFirst" \in Guards THEN "bykey" ELSE "lockpod",
                             !.loc.lpod = lp, !.loc.key = KeyOf(lp), !.loc.policy = PolicyOf(lp)]}
   [] o.type = "bind" /\ o.pc = "bykey" ->
        LET ips0 == r.ips
            ips == IF Len(p.ranges) = 0 /\ Len(ips0) > 0 THEN <<ips0[1]>> ELSE ips0
            owned == {ips[i] : i \in {j \in 1..Len(ips) : ips[j] # "none"}}
            unalloc == IF Len(p.ranges) = 0 THEN <<>> ELSE SelectSeqIdx(p.ranges, ips)
            stale == "bindUidGuard" \in Guards /\ \E ip \in owned : mem[ip].uid # "" /\ mem[ip].uid # p.uid
            o1 == [o EXCEPT !.loc.ips = ips, !.loc.reserved = owned, !.loc.unalloc = unalloc, !.loc.i = 1] IN
        IF stale THEN {Finish(o, FALSE)}
        ELSE IF Len(unalloc) > 0 \/ Len(ips) = 0
          THEN IF "bindPoolSize" \in Guards /\ p.pool # "" /\ p.pool \in DOMAIN poolobj THEN {Finish(o, FALSE)}   \* sized pool: filter allocates
               ELSE IF NodeSubnetOf(o.node) = "none" THEN {Finish(o, FALSE)}
               \* a deployment/pool pod with a reserving policy first tries the reserve of its app (the IP it held during filter may be back there)
               ELSE IF "bindReuseReserve" \in Guards /\ p.kind = "dp" /\ L.policy # 0 /\ Len(p.ranges) = 0
                 THEN {[o1 EXCEPT !.pc = "allocwithkey_b", !.loc.rs = NodeSubnetOf(o.node)]}
               ELSE {[o1 EXCEPT !.pc = "allocmulti", !.loc.rs = NodeSubnetOf(o.node)]}
          ELSE {BindSkip(o1)}
   [] o.type = "bind" /\ o.pc = "allocwithkey_b" -> IF r.ok THEN {Goto(o, "bykey2")} ELSE {Goto(o, "allocmulti")}
   [] o.type = "bind" /\ o.pc = "allocmulti" -> IF r.ok THEN {Goto(o, "bykey2")} ELSE {Finish(o, FALSE)}
   [] o.type = "bind" /\ o.pc = "bykey2" -> {BindSkip([o EXCEPT !.loc.ips = r.ips, !.loc.i = 1])}
   [] o.type = "bind" /\ o.pc = "assign" ->
        IF ~r.ok THEN {Finish(o, FALSE)}
        ELSE IF L.ips[L.i] \in L.reserved THEN {Goto(o, "updateattr")}
        ELSE {BindNextIP_(o)}
   [] o.type = "bind" /\ o.pc = "updateattr" -> IF r.ok THEN {BindNextIP_(o)} ELSE {Finish(o, FALSE)}
   [] o.type = "bind" /\ o.pc = "binding" ->
        IF r.res = "ok" THEN {Finish(o, TRUE)}
        ELSE IF r.res = "notfound" THEN {[Finish(o, FALSE) EXCEPT !.loc.enq = TRUE]}
        ELSE IF L.tries < MaxBindTries
               THEN {[o EXCEPT !.loc.tries = L.tries + 1]} \cup (IF BindGiveUpEarly THEN {Finish(o, FALSE)} ELSE {})
               ELSE {Finish(o, FALSE)}
    (* ======== unbind (one release event) ======== *)
   [] o.type = "unbind" /\ o.pc = "lockpod" ->
        IF CloudOn \/ "unbindUid" \in Guards THEN {Goto(o, "bykey_c")} ELSE {RelDecide(o)}
   [] o.type = "unbind" /\ o.pc = "bykey_c" ->
        LET o1 == [o EXCEPT !.loc.ips = r.ips, !.loc.i = 1]
            foreign == \E ip \in Range(r.ips) : mem[ip].uid # "" /\ mem[ip].uid # p.uid IN
        IF "unbindUid" \in Guards /\ foreign THEN {Finish(o, TRUE)}      \* event of an earlier pod: ignored
        ELSE IF Len(r.ips) = 0 \/ ~CloudOn THEN {RelDecide(o1)} ELSE {Goto(o1, "unassign_c")}
   [] o.type = "unbind" /\ o.pc = "unassign_c" ->
        IF ~r.ok THEN {Finish(o, FALSE)}
        ELSE IF L.i < Len(L.ips) THEN {[o EXCEPT !.loc.i = L.i + 1]}
        ELSE {RelDecide(o)}
    (* ======== shared release / reserve sub-steps ======== *)
   [] o.pc = "bykey_r" ->
        IF Len(r.ips) = 0 THEN {SubDone(o, TRUE)} ELSE {[o EXCEPT !.pc = "releaseips", !.loc.ips = r.ips]}
   [] o.pc = "releaseips" -> {SubDone(o, r.ok)}
   [] o.pc = "reserve" -> {SubDone(o, r.ok)}
   [] o.type \in {"unbind", "resync"} /\ o.pc = "lockdp" -> {Goto(o, "byprefix")}
   [] o.type \in {"unbind", "resync"} /\ o.pc = "byprefix" ->
        IF Len(r.ips) > L.replicas THEN {RelRelease(o)}
        ELSE IF L.key # L.oldK THEN {RelReserve(o, L.key, L.oldK)}
        ELSE {SubDone(o, TRUE)}
    (* ======== resync ======== *)
   [] o.type = "resync" /\ o.pc = "byprefixall" ->
        LET order == r.ips
            ok(ip) == LET m == mem[ip] IN
                      /\ m.key # NoKey /\ m.key.pod # "" /\ m.key.app # ""
                      /\ ~(m.uid = "" /\ m.node = "" /\ ~IsDpKey(m.key) /\ m.policy = 2)
            sel == SelectSeq(order, ok)
            items == [i \in 1..Len(sel) |-> [ip |-> sel[i], key |-> mem[sel[i]].key, uid |-> mem[sel[i]].uid,
                                              node |-> mem[sel[i]].node, policy |-> mem[sel[i]].policy]] IN
        {NextItem([o EXCEPT !.loc.items = items, !.loc.i = 1])}
   [] o.type = "resync" /\ o.pc = "lockpod" -> {Goto(o, "byip")}
   [] o.type = "resync" /\ o.pc = "byip" ->
        IF r.key # L.key THEN {NextItem(o)}
        ELSE IF "resyncReread" \in Guards
          THEN {[o EXCEPT !.pc = "podlist", !.loc.fip = [key |-> r.key, uid |-> r.uid, node |-> r.node, policy |-> r.policy],
                          !.loc.policy = r.policy]}
          ELSE LET it == L.items[L.i - 1] IN      \* weakened: keeps the fields of the unlocked snapshot
               {[o EXCEPT !.pc = "podlist", !.loc.fip = [key |-> it.key, uid |-> it.uid, node |-> it.node, policy |-> it.policy],
                          !.loc.policy = it.policy]}
   [] o.type \in {"resync", "apirelease"} /\ o.pc = "podlist" ->      \* podRunning: informer cache
        IF r.found /\ (L.fip.uid = "" \/ L.fip.uid = r.uid) /\ r.phase # "Done"
          THEN (IF o.type = "resync" THEN {NextItem(o)} ELSE {Finish(o, FALSE)})
          ELSE IF "apiDoubleCheck" \in Guards \/ r.found THEN {Goto(o, "podget")}
          ELSE (IF CloudOn /\ L.fip.node # "" THEN {Goto(o, "unassign")}       \* weakened: NotFound in the cache is believed
                ELSE IF o.type = "resync" THEN {RelDecide(o)} ELSE {Goto(o, "release")})
   [] o.type \in {"resync", "apirelease"} /\ o.pc = "podget" ->                        \* podRunning: API server
        LET running == r.err # "" \/ (r.found /\ (L.fip.uid = "" \/ L.fip.uid = r.uid) /\ r.phase # "Done") IN
        IF running THEN (IF o.type = "resync" THEN {NextItem(o)} ELSE {Finish(o, FALSE)})
        ELSE IF CloudOn /\ L.fip.node # "" THEN {Goto(o, "unassign")}
        ELSE IF o.type = "resync" THEN {RelDecide(o)} ELSE {Goto(o, "release")}
   [] o.type \in {"resync", "apirelease"} /\ o.pc = "unassign" ->
        IF ~r.ok THEN (IF o.type = "resync" THEN {NextItem(o)} ELSE {Finish(o, FALSE)})
        ELSE {Goto(o, "reserve_u")}
   [] o.type = "resync" /\ o.pc = "reserve_u" -> {RelDecide(o)}
    (* ======== API release of one listed entry ======== *)
   [] o.type = "apirelease" /\ o.pc = "podlist0" ->      \* checkReleasableAndStatus
        IF r.found THEN {Finish(o, FALSE)} ELSE {Goto(o, "lockpod")}
   [] o.type = "apirelease" /\ o.pc = "lockpod" -> {Goto(o, "byip")}
   [] o.type = "apirelease" /\ o.pc = "byip" ->
        LET o1 == [o EXCEPT !.loc.fip = [key |-> r.key, uid |-> r.uid, node |-> r.node, policy |-> r.policy]] IN
        IF r.key # L.key THEN {Finish(o, r.key = NoKey)}
        ELSE IF L.podname # "" THEN {Goto(o1, "podlist")}
        ELSE IF CloudOn /\ r.node # "" THEN {Goto(o1, "unassign")}
        ELSE {Goto(o1, "release")}
   [] o.type = "apirelease" /\ o.pc = "reserve_u" -> IF r.ok THEN {Goto(o, "release")} ELSE {Finish(o, FALSE)}
   [] o.type = "apirelease" /\ o.pc = "release" -> {Finish(o, r.ok)}
    (* ======== pool create/update with pre-allocation ======== *)
   [] o.type = "poolupsert" /\ o.pc = "lockdp" -> {Goto(o, "byprefix")}
   [] o.type = "poolupsert" /\ o.pc = "byprefix" -> {[o EXCEPT !.pc = "nodesubnets", !.loc.need = L.need - Len(r.ips)]}
   [] o.type = "poolupsert" /\ o.pc = "nodesubnets" ->
        IF Len(r.subnets) = 0 \/ L.need <= 0 THEN {Finish(o, Len(r.subnets) # 0)}
        ELSE {[o EXCEPT !.pc = "allocinsubnet", !.loc.subs = Range(r.subnets) \ {s}, !.loc.rs = s] : s \in Range(r.subnets)}
   [] o.type = "poolupsert" /\ o.pc = "allocinsubnet" ->
        IF r.ok THEN (IF L.need <= 1 THEN {Finish(o, TRUE)} ELSE {[o EXCEPT !.loc.need = L.need - 1]})
        ELSE IF r.err = "noip"
          THEN (IF L.subs = {} THEN {Finish(o, FALSE)}
                ELSE {[o EXCEPT !.loc.subs = L.subs \ {s}, !.loc.rs = s] : s \in L.subs})
          ELSE {Finish(o, FALSE)}
    (* ======== reload ======== *)
   [] o.type = "reload" /\ o.pc = "cmget" ->
        IF ~r.ok THEN {Finish(o, FALSE)}
        ELSE IF r.conf = loaded THEN {Finish(o, TRUE)}
        ELSE {[o EXCEPT !.pc = "configure", !.loc.need = r.conf]}
   [] o.type = "reload" /\ o.pc = "configure" -> {Finish(o, r.ok)}
    (* ======== pod-ip sync of a running pod (UpdatePod) ======== *)
   \* ("syncReread": the periodic sync works on a listed snapshot; under the pod lock it reads the pod again from the informer cache
   \*  and skips a pod object that is not the cached one any more.  The UpdatePod handler gets its pod from the event.)
   [] o.type \in {"syncpod", "syncall"} /\ o.pc = "lockpod" ->
        IF "syncReread" \in Guards /\ o.type = "syncall" THEN {Goto(o, "podlist")}
        ELSE IF Len(L.ips) = 0 THEN {SyncEnd(o)} ELSE {[o EXCEPT !.pc = "byip", !.loc.i = 1, !.loc.ip = L.ips[1]]}
   [] o.type \in {"syncpod", "syncall"} /\ o.pc = "podlist" ->
        IF ~(r.found /\ r.uid = L.lpod.uid) \/ Len(L.ips) = 0 THEN {SyncEnd(o)}
        ELSE {[o EXCEPT !.pc = "byip", !.loc.i = 1, !.loc.ip = L.ips[1]]}
   [] o.type \in {"syncpod", "syncall"} /\ o.pc = "byip" ->
        IF r.key = NoKey /\ L.ip \in DOMAIN mem THEN {Goto(o, "specific")}
        ELSE {SyncNext(o)}
   [] o.type \in {"syncpod", "syncall"} /\ o.pc = "specific" -> {SyncNext(o)}
    (* ======== periodic pod-ip sync (syncPodIPsIntoDB): one listing, then every running pod of the snapshot ======== *)
   [] o.type = "syncall" /\ o.pc = "podlistall" ->
        {SyncAllNext([o EXCEPT !.loc.items = [i \in 1..Len(r.names) |-> lpods[r.names[i]]], !.loc.need = 1])}
   [] OTHER -> {}


(* ====================================================================== the world as a record *)
Cur == [mem |-> mem, store |-> store, pools |-> pools, clock |-> clock, pods |-> pods, lpods |-> lpods,
        pevq |-> pevq, work |-> work, sts |-> sts, dp |-> dp, poolobj |-> poolobj, cm |-> cm, cloud |-> cloud,
        ops |-> ops, podlock |-> podlock, dplock |-> dplock, nscache |-> nscache, fev |-> fev, alive |-> alive,
        loaded |-> loaded, filtered |-> filtered, ctr |-> ctr]
SetWorld(w) ==
    /\ mem' = w.mem /\ store' = w.store /\ pools' = w.pools /\ clock' = w.clock /\ pods' = w.pods
    /\ lpods' = w.lpods /\ pevq' = w.pevq /\ work' = w.work /\ sts' = w.sts /\ dp' = w.dp
    /\ poolobj' = w.poolobj /\ cm' = w.cm /\ cloud' = w.cloud /\ ops' = w.ops /\ podlock' = w.podlock
    /\ dplock' = w.dplock /\ nscache' = w.nscache /\ fev' = w.fev /\ alive' = w.alive
    /\ loaded' = w.loaded /\ filtered' = w.filtered /\ ctr' = w.ctr

(* ---- effect of one call: set of [ret, w] where w is Cur with the call's effect applied ---- *)
NoHint == [nohint |-> TRUE]
HasHint(h) == "nohint" \notin DOMAIN h
RECURSIVE AddrSeq(_)
AddrSeq(S) == IF S = {} THEN <<>>
              ELSE LET x == CHOOSE y \in S : \A z \in S : Order(y) <= Order(z) IN <<x>> \o AddrSeq(S \ {x})
RECURSIVE Rev(_)
Rev(q) == IF q = <<>> THEN <<>> ELSE Rev(Tail(q)) \o <<Head(q)>>
IsPermOf(q, S) == Range(q) = S /\ Len(q) = Cardinality(S)
\* the orders in which a Go map iteration may return the set S: with a hint (trace) the logged order if it is
\* a permutation; without (model checking) address order and its reverse
Orders(S, h) == IF HasHint(h) THEN (IF "ips" \in DOMAIN h /\ IsPermOf(h.ips, S) THEN {h.ips} ELSE {})
                ELSE {AddrSeq(S), Rev(AddrSeq(S))}
RECURSIVE NameSeq(_)
NameSeq(S) == IF S = {} THEN <<>> ELSE LET x == CHOOSE y \in S : TRUE IN <<x>> \o NameSeq(S \ {x})
NameOrders(S, h) == IF HasHint(h) THEN (IF "names" \in DOMAIN h /\ IsPermOf(h.names, S) THEN {h.names} ELSE {})
                    ELSE {NameSeq(S), Rev(NameSeq(S))}
ErrClass(e) == IF e = "" THEN "" ELSE IF e = "noip" THEN "noip" ELSE "other"
IpamRet(o) == [ok |-> o.ret.ok, err |-> ErrClass(o.ret.err), ips |-> o.ret.ips,
               reserved |-> IF "reserved" \in DOMAIN o.ret THEN o.ret.reserved ELSE FALSE, calls |-> o.calls]
Emp == [x \in {} |-> 0]
PodEv(type, old, new) == [type |-> type, old |-> old, new |-> new]

\* guard names "podlock:<type>" / "dplock:<type>": that operation type takes the lock
LockGuard(kind, type) == (kind \o ":" \o type) \in Guards
CallOutcomes(o, c, f, h) ==
    LET W == Cur  a == c.args
        RO(ret) == {[ret |-> ret, w |-> W]}                      \* read-only call
        IP(outs) == {[ret |-> IpamRet(x), w |-> [W EXCEPT !.mem = x.mem, !.store = x.store, !.clock = clock + 1]] : x \in outs}
    IN
    CASE c.name = "lockpod" -> IF a.key \in DOMAIN podlock /\ LockGuard("podlock", o.type) THEN {} ELSE RO(Emp)
      [] c.name = "lockdp"  -> IF a.key \in DOMAIN dplock /\ LockGuard("dplock", o.type) THEN {} ELSE RO(Emp)
      [] c.name = "podlist" ->
           IF a.pod \in DOMAIN lpods THEN RO([found |-> TRUE, uid |-> lpods[a.pod].uid, phase |-> lpods[a.pod].phase, err |-> ""])
           ELSE RO([found |-> FALSE, uid |-> "", phase |-> "", err |-> ""])
      [] c.name = "podlistall" ->      \* the lister returns the cached pods in map order
           {[ret |-> [names |-> q], w |-> W] : q \in NameOrders(DOMAIN lpods, h)}
      [] c.name = "podget" ->
           IF f = 1 THEN RO([found |-> FALSE, uid |-> "", phase |-> "", err |-> "injected"])
           ELSE IF a.pod \in DOMAIN pods THEN RO([found |-> TRUE, uid |-> pods[a.pod].uid, phase |-> pods[a.pod].phase, err |-> ""])
           ELSE RO([found |-> FALSE, uid |-> "", phase |-> "", err |-> ""])
      [] c.name = "ByKeyAndIPRanges" ->
           IF Len(a.ranges) > 0 THEN RO([ok |-> TRUE, ips |-> ByKeyAndRanges(mem, a.key, a.ranges)])
           ELSE {[ret |-> [ok |-> TRUE, ips |-> q], w |-> W] : q \in Orders(KeyIPs(mem, a.key), h)}
      [] c.name = "ByPrefix" ->
           {[ret |-> [ok |-> TRUE, ips |-> q], w |-> W] : q \in Orders(ByPrefixIPs(mem, a.prefix), h)}
      [] c.name = "ByIP" ->
           IF a.ip \in DOMAIN mem
             THEN RO([key |-> mem[a.ip].key, uid |-> mem[a.ip].uid, node |-> mem[a.ip].node, policy |-> mem[a.ip].policy])
             ELSE RO([key |-> NoKey, uid |-> "", node |-> "", policy |-> 0])
      [] c.name = "First" ->
           IF KeyIPs(mem, a.key) = {} THEN RO([ip |-> "none"]) ELSE {[ret |-> [ip |-> x], w |-> W] : x \in KeyIPs(mem, a.key)}
      [] c.name = "NodeSubnetsByIPRanges" ->
           RO([ok |-> TRUE, subnets |-> SortSubnets(NodeSubnetsByIPRanges(mem, pools, a.ranges))])
      [] c.name = "AllocateInSubnet" -> IP(AllocateInSubnet(mem, store, pools, a.key, a.subnet, a.attr, clock, f))
      [] c.name = "AllocateInSubnetWithKey" -> IP(AllocateInSubnetWithKey(mem, store, pools, a.oldK, a.newK, a.subnet, a.attr, clock, f))
      [] c.name = "AllocateMulti" -> IP(AllocateInSubnetsAndIPRange(mem, store, pools, a.key, a.subnet, a.ranges, a.attr, clock, f))
      [] c.name = "ReserveIP" -> IP(ReserveIP(mem, store, a.oldK, a.newK, a.attr, clock, f))
      [] c.name = "UpdateAttr" -> IP(UpdateAttr(mem, store, a.key, a.ip, a.attr, clock, f))
      [] c.name = "Release" -> IP(Release(mem, store, a.key, a.ip, f))
      [] c.name = "ReleaseIPs" -> IP(ReleaseIPs(mem, store, a.want, f))
      [] c.name = "AllocateSpecificIP" -> IP(AllocateSpecificIP(mem, store, a.key, a.ip, a.attr, clock, f))
      [] c.name = "ConfigurePool" ->
           {[ret |-> IpamRet(x),
             w |-> IF x.ret.ok THEN [W EXCEPT !.mem = x.mem, !.store = x.store, !.pools = Configs[o.loc.need],
                                              !.loaded = o.loc.need, !.nscache = Emp,
                                              !.fev = fev \o DropEvents(store, (DOMAIN store) \ (DOMAIN x.store))]
                   ELSE W] : x \in ConfigurePool(mem, store, Configs[o.loc.need], f)}
      [] c.name = "binding" ->
           IF f = 1 THEN RO([res |-> "injected"])
           ELSE IF a.pod \notin DOMAIN pods THEN RO([res |-> "notfound"])
           ELSE IF pods[a.pod].uid # a.uid \/ pods[a.pod].node # "" THEN RO([res |-> "conflict"])
           ELSE LET np == [pods[a.pod] EXCEPT !.node = a.node, !.ann = a.ann] IN
                {[ret |-> [res |-> "ok"],
                  w |-> [W EXCEPT !.pods = [pods EXCEPT ![a.pod] = np], !.pevq = Append(pevq, PodEv("upd", pods[a.pod], np))]]}
      [] c.name = "AssignIP" ->
           IF f = 1 THEN RO([ok |-> FALSE])
           ELSE {[ret |-> [ok |-> TRUE], w |-> [W EXCEPT !.cloud = Put(cloud, a.ip, a.node)]]}
      [] c.name = "UnAssignIP" ->
           IF f = 1 THEN RO([ok |-> FALSE])
           ELSE {[ret |-> [ok |-> TRUE], w |-> [W EXCEPT !.cloud = IF a.ip \in DOMAIN cloud /\ cloud[a.ip] = a.node THEN Del(cloud, a.ip) ELSE cloud]]}
      [] c.name = "cmget" -> IF f = 1 THEN RO([ok |-> FALSE, conf |-> 0]) ELSE RO([ok |-> TRUE, conf |-> cm])
      [] OTHER -> {}

(* ---- one segment of operation id: call effect, continuation, locks, completion effects ---- *)
NodesOf(subnets) == {n \in Nodes : NodeSubnetOf(n) \in subnets}
Finished(p) == p.phase = "Done"
LocksWithout(l, id) == [k \in {x \in DOMAIN l : l[x] # id} |-> l[k]]
WorkItem(p, retry) == [pod |-> p, retry |-> retry]

Complete(w, id, o, o2) ==      \* bookkeeping when the operation ends (o2.pc = "done")
    LET ok == o2.loc.res.ok
        w1 == [w EXCEPT !.ops = [x \in (DOMAIN w.ops) \ {id} |-> w.ops[x]]] IN
    CASE o.type = "preempt" ->      \* the answer (kept under "preempt:<pod>" for comparison with the code's): the candidate nodes in
                                    \* the computed subnets, or all candidates when getSubnet failed; the node-subnet cache fills as for filter
           IF ok THEN [w1 EXCEPT !.filtered = Put(w.filtered, "preempt:" \o o.loc.podname, [uid |-> o.uid, nodes |-> NodesOf(o2.loc.subnets)]),
                                 !.nscache = [n \in (DOMAIN nscache) \cup {m \in Nodes : NodeSubnetNow(m) # "none"} |-> NodeSubnetOf(n)]]
           ELSE [w1 EXCEPT !.filtered = Put(w.filtered, "preempt:" \o o.loc.podname, [uid |-> o.uid, nodes |-> Nodes])]
      [] o.type = "filter" ->
           IF ok THEN [w1 EXCEPT !.filtered = Put(w.filtered, o.loc.podname, [uid |-> o.uid, nodes |-> NodesOf(o2.loc.subnets)]),
                                 !.nscache = [n \in (DOMAIN nscache) \cup {m \in Nodes : NodeSubnetNow(m) # "none"} |-> NodeSubnetOf(n)]]
           ELSE [w1 EXCEPT !.filtered = IF o.loc.podname \in DOMAIN w.filtered THEN Del(w.filtered, o.loc.podname) ELSE w.filtered]
      [] o.type = "bind" ->
           LET w2 == IF o2.loc.enq THEN [w1 EXCEPT !.work = Append(w.work, WorkItem(o2.loc.lpod, 0))] ELSE w1 IN
           IF o2.loc.rs # "" /\ o.node \notin DOMAIN nscache THEN [w2 EXCEPT !.nscache = Put(nscache, o.node, o2.loc.rs)] ELSE w2
      [] o.type = "unbind" ->
           IF ~ok /\ o.loc.tries < 3 THEN [w1 EXCEPT !.work = Append(w.work, WorkItem(o.loc.lpod, o.loc.tries + 1))] ELSE w1
      [] OTHER -> w1

StepOutcomes(id, f, h) ==
    LET o == ops[id]  c == Call(o) IN
    UNION { { LET w0 == out.w
                  w1 == IF c.name = "lockpod" /\ LockGuard("podlock", o.type) THEN [w0 EXCEPT !.podlock = Put(podlock, c.args.key, id)]
                        ELSE IF c.name = "lockdp" /\ LockGuard("dplock", o.type) THEN [w0 EXCEPT !.dplock = Put(dplock, c.args.key, id)] ELSE w0
                  rel == o2.pc = "done" \/ (o.type \in {"resync", "syncall"} /\ o2.pc = "lockpod")
                  w2 == IF rel THEN [w1 EXCEPT !.podlock = LocksWithout(w1.podlock, id), !.dplock = LocksWithout(w1.dplock, id)] ELSE w1
              IN IF o2.pc = "done" THEN Complete(w2, id, o, o2) ELSE [w2 EXCEPT !.ops = [w2.ops EXCEPT ![id] = o2]]
            : o2 \in Cont(o, out.ret) }
          : out \in CallOutcomes(o, c, f, h) }

(* ---- starting operations ---- *)
AddOp(w, o) == [w EXCEPT !.ops = Put(w.ops, w.ctr.op, o), !.ctr.op = w.ctr.op + 1]
WithPod(o, p) == [o EXCEPT !.loc.lpod = p, !.loc.key = KeyOf(p), !.loc.policy = PolicyOf(p), !.loc.podname = p.name]

StartFilterW(name) == AddOp(Cur, WithPod(NewOp("filter", "lockpod", name, "", pods[name].uid), pods[name]))
StartPreemptW(name) == AddOp(Cur, WithPod(NewOp("preempt", "lockpod", name, "", pods[name].uid), pods[name]))
StartBindW(name, node) ==
    AddOp(Cur, [NewOp("bind", IF "bindLockFirst" \in Guards THEN "lockpod" ELSE "podlist", name, node, pods[name].uid)
                EXCEPT !.loc.podname = name])
StartUnbindW ==
    LET it == Head(work) IN
    AddOp([Cur EXCEPT !.work = Tail(work)],
          [WithPod(NewOp("unbind", "lockpod", it.pod.name, "", it.pod.uid), it.pod) EXCEPT !.loc.tries = it.retry])
StartResyncW == AddOp(Cur, NewOp("resync", "byprefixall", "", "", ""))
StartApiReleaseW(ip, key) ==
    AddOp(Cur, [NewOp("apirelease", IF key.pod = "" THEN "lockpod" ELSE "podlist0", key.pod, "", "")
                EXCEPT !.loc.ip = ip, !.loc.key = key, !.loc.podname = key.pod])
StartReloadW == AddOp(Cur, NewOp("reload", "cmget", "", "", ""))
StartSyncAllW == AddOp(Cur, NewOp("syncall", "podlistall", "", "", ""))
StartPoolUpsertW(pl, size, prealloc) ==
    LET w == [Cur EXCEPT !.poolobj = Put(poolobj, pl, [size |-> size, prealloc |-> prealloc])] IN
    IF prealloc
      THEN AddOp(w, [NewOp("poolupsert", "lockdp", pl, "", "") EXCEPT
                       !.loc.oldK = [pool |-> pl, kind |-> "", app |-> "", pod |-> ""],
                       !.loc.key = [pool |-> pl, kind |-> "", app |-> "", pod |-> ""], !.loc.need = size])
      ELSE [w EXCEPT !.ctr.op = w.ctr.op + 1]

(* ---- environment ---- *)
UidStr(n) == "u" \o ToString(n)
NewPodRec(name, uid) ==
    [name |-> name, kind |-> Specs[name].kind, app |-> Specs[name].app, pool |-> Specs[name].pool,
     policy |-> Specs[name].policy, ranges |-> Specs[name].ranges, uid |-> uid, phase |-> "Pending", node |-> "", ann |-> <<>>]
CreatePodW(name) ==
    LET p == NewPodRec(name, UidStr(ctr.uid)) IN
    [Cur EXCEPT !.pods = Put(pods, name, p), !.pevq = Append(pevq, PodEv("add", NoPod, p)), !.ctr.uid = ctr.uid + 1,
                !.ctr.inc = Put(ctr.inc, name, (IF name \in DOMAIN ctr.inc THEN ctr.inc[name] ELSE 0) + 1)]
DeletePodW(name) ==
    [Cur EXCEPT !.pods = Del(pods, name), !.pevq = Append(pevq, PodEv("del", NoPod, pods[name])),
                !.filtered = IF name \in DOMAIN filtered THEN Del(filtered, name) ELSE filtered]
SetPhaseW(name, ph) ==
    LET np == [pods[name] EXCEPT !.phase = ph] IN
    [Cur EXCEPT !.pods = [pods EXCEPT ![name] = np], !.pevq = Append(pevq, PodEv("upd", pods[name], np))]
\* the informer delivers its oldest event: cache update + the plugin's handler
DeliverPodW ==
    LET e == Head(pevq)  n == e.new.name
        lp2 == IF e.type = "del" THEN (IF n \in DOMAIN lpods /\ lpods[n].uid = e.new.uid THEN Del(lpods, n) ELSE lpods)
               ELSE Put(lpods, n, e.new)
        w == [Cur EXCEPT !.pevq = Tail(pevq), !.lpods = lp2] IN
    IF ~alive THEN w
    ELSE IF e.type = "del" THEN [w EXCEPT !.work = Append(work, WorkItem(e.new, 0))]
    ELSE IF e.type = "upd" /\ ~Finished(e.old) /\ Finished(e.new) THEN [w EXCEPT !.work = Append(work, WorkItem(e.new, 0))]
    ELSE IF e.type = "upd" /\ e.new.phase = "Running"
      THEN AddOp(w, [WithPod(NewOp("syncpod", "lockpod", n, "", e.new.uid), e.new) EXCEPT !.loc.ips = e.new.ann])
    ELSE w
CrashW == [Cur EXCEPT !.alive = FALSE, !.ops = Emp, !.podlock = Emp, !.dplock = Emp, !.work = <<>>, !.fev = <<>>,
                      !.nscache = Emp, !.filtered = Emp, !.mem = Emp]
RestartW ==
    LET sw == ConfigureSwap(store, store, Configs[cm], 0) IN
    [Cur EXCEPT !.alive = TRUE, !.mem = sw.mem, !.store = [ip \in (DOMAIN store) \ sw.drop |-> store[ip]],
                !.pools = Configs[cm], !.loaded = cm, !.lpods = pods, !.pevq = <<>>]
=============================================================================
