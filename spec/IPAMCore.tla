------------------------------- MODULE IPAMCore -------------------------------
(***************************************************************************)
(* The floatingip.IPAM object (pkg/ipam/floatingip/ipam_crd.go,            *)
(* store_crd.go) as pure operators over an explicit state                   *)
(*     mem   : configured IP -> in-memory record (allocated or free)        *)
(*     store : IP with a persisted FloatingIP object -> its record          *)
(*     pools : pool id -> [subnets : set of node subnets, ips : set of IP]  *)
(* Every IPAM method is an operator  M(mem, store, pools, args, now, f)     *)
(* returning the SET of its possible outcomes [mem, store, ret, calls].     *)
(* Nondeterminism of the code (Go map iteration picks the IP / the order)   *)
(* is nondeterminism here.  f is the index of the store call that fails     *)
(* (0 = none); calls is the number of store calls issued.  A store call     *)
(* also fails "naturally" (AlreadyExists / NotFound) from the store state.  *)
(* One method = one cacheLock critical section, except AllocateSpecificIP   *)
(* and ConfigurePool whose real, separate sections are separate operators.  *)
(***************************************************************************)
EXTENDS Integers, Sequences, FiniteSets, TLC

CONSTANT IPSeq    \* all IP names in address order
Order(ip) == CHOOSE i \in 1..Len(IPSeq) : IPSeq[i] = ip

NoKey == [pool |-> "", kind |-> "", app |-> "", pod |-> ""]

\* structural version of strings.HasPrefix on the key layouts of util.KeyObj
HasPrefix(k, pre) ==
    IF pre = NoKey THEN TRUE
    ELSE IF pre.pod # "" THEN k = pre
    ELSE IF pre.app # "" THEN k.pool = pre.pool /\ k.kind = pre.kind /\ k.app = pre.app
    ELSE k.pool = pre.pool

FreeRec == [key |-> NoKey, policy |-> 0, uid |-> "", node |-> "", lab |-> FALSE, ts |-> 0]
IsFree(m) == m.key = NoKey
Attr(policy, uid, node) == [policy |-> policy, uid |-> uid, node |-> node]
MemOf(key, attr, lab, now) ==
    [key |-> key, policy |-> attr.policy, uid |-> attr.uid, node |-> attr.node, lab |-> lab, ts |-> now]
StoreOf(key, attr, lab, now) ==
    [key |-> key, policy |-> attr.policy, uid |-> attr.uid, node |-> attr.node, lab |-> lab, ts |-> now]

ConfIPs(pools) == UNION {pools[p].ips : p \in DOMAIN pools}
\* total: an IP outside every pool has no pool and no subnets (only broken code produces such a state)
PoolsOfIP(pools, ip) == {p \in DOMAIN pools : ip \in pools[p].ips}
SubnetsOf(pools, ip) == UNION {pools[p].subnets : p \in PoolsOfIP(pools, ip)}
AllSubnets(pools) == UNION {pools[p].subnets : p \in DOMAIN pools}

Allocated(mem) == {ip \in DOMAIN mem : ~IsFree(mem[ip])}
Unallocated(mem) == {ip \in DOMAIN mem : IsFree(mem[ip])}
KeyIPs(mem, key) == {ip \in DOMAIN mem : mem[ip].key = key /\ key # NoKey}

\* function update that may extend the domain
Put(f, x, v) == [y \in (DOMAIN f) \cup {x} |-> IF y = x THEN v ELSE f[y]]
Del(f, x) == [y \in (DOMAIN f) \ {x} |-> f[y]]

Out(mem, store, ret, calls) == [mem |-> mem, store |-> store, ret |-> ret, calls |-> calls]
Ok == [ok |-> TRUE, err |-> "", ips |-> <<>>]
OkIPs(ips) == [ok |-> TRUE, err |-> "", ips |-> ips]
Err(e) == [ok |-> FALSE, err |-> e, ips |-> <<>>]

(* ---- single store calls: result [ok, store] -------------------------- *)
SCreate(store, ip, rec, fails) ==
    IF fails \/ ip \in DOMAIN store THEN [ok |-> FALSE, store |-> store]
    ELSE [ok |-> TRUE, store |-> Put(store, ip, rec)]
SDelete(store, ip, fails) ==
    IF fails \/ ip \notin DOMAIN store THEN [ok |-> FALSE, store |-> store]
    ELSE [ok |-> TRUE, store |-> Del(store, ip)]
\* updateFloatingIP = Get + Update (2 calls); labels of the fetched object are kept
\* returns [ok, store, calls]
SUpdate(store, ip, key, attr, now, f, base) ==
    IF f = base + 1 \/ ip \notin DOMAIN store
      THEN [ok |-> FALSE, store |-> store, calls |-> 1]
      ELSE IF f = base + 2
        THEN [ok |-> FALSE, store |-> store, calls |-> 2]
        ELSE [ok |-> TRUE, store |-> Put(store, ip, StoreOf(key, attr, store[ip].lab, now)), calls |-> 2]

(* ---- AllocateInSubnet ------------------------------------------------- *)
AllocateInSubnet(mem, store, pools, key, subnet, attr, now, f) ==
    LET cands == {ip \in Unallocated(mem) : subnet \in SubnetsOf(pools, ip)} IN
    IF cands = {} THEN {Out(mem, store, Err("noip"), 0)}
    ELSE { LET c == SCreate(store, ip, StoreOf(key, attr, FALSE, now), f = 1) IN
           IF c.ok THEN Out(Put(mem, ip, MemOf(key, attr, FALSE, now)), c.store, OkIPs(<<ip>>), 1)
           ELSE Out(mem, store, Err("create"), 1)
         : ip \in cands }

(* ---- AllocateInSubnetWithKey: newest (by ts) IP of oldK in subnet ----- *)
AllocateInSubnetWithKey(mem, store, pools, oldK, newK, subnet, attr, now, f) ==
    LET cands == {ip \in Allocated(mem) : mem[ip].key = oldK /\ subnet \in SubnetsOf(pools, ip)}
        newest == {ip \in cands : \A j \in cands : mem[j].ts <= mem[ip].ts}
    IN IF cands = {} THEN {Out(mem, store, Err("nokey"), 0)}
       ELSE { LET u == SUpdate(store, ip, newK, attr, now, f, 0) IN
              IF u.ok THEN Out(Put(mem, ip, MemOf(newK, attr, mem[ip].lab, now)), u.store, Ok, u.calls)
              ELSE Out(mem, store, Err("update"), u.calls)
            : ip \in newest }

(* ---- ReserveIP: every IP of oldK, in any order, stops at first failure  *)
RECURSIVE ReserveSeq(_, _, _, _, _, _, _, _, _)
ReserveSeq(mem, store, todo, oldK, newK, attr, now, f, base) ==
    \* todo: set of IPs still to process; returns outcomes [mem, store, ret, calls, changed]
    IF todo = {} THEN {[mem |-> mem, store |-> store, ok |-> TRUE, calls |-> base]}
    ELSE UNION { LET a == [attr EXCEPT !.policy = mem[ip].policy]
                     u == SUpdate(store, ip, newK, a, now, f, base) IN
                 IF u.ok
                   THEN ReserveSeq(Put(mem, ip, MemOf(newK, a, mem[ip].lab, now)), u.store, todo \ {ip},
                                   oldK, newK, attr, now, f, base + u.calls)
                   ELSE {[mem |-> mem, store |-> store, ok |-> FALSE, calls |-> base + u.calls]}
               : ip \in todo }

ReserveIP(mem, store, oldK, newK, attr, now, f) ==
    LET todo == {ip \in Allocated(mem) : mem[ip].key = oldK /\
                   ~(oldK = newK /\ mem[ip].uid = attr.uid /\ mem[ip].node = attr.node)}
    IN { Out(r.mem, r.store,
             IF r.ok THEN [ok |-> TRUE, err |-> "", ips |-> <<>>, reserved |-> (todo # {})]
                     ELSE [ok |-> FALSE, err |-> "update", ips |-> <<>>, reserved |-> FALSE],
             r.calls)
       : r \in ReserveSeq(mem, store, todo, oldK, newK, attr, now, f, 0) }

(* ---- UpdateAttr ------------------------------------------------------- *)
UpdateAttr(mem, store, key, ip, attr, now, f) ==
    IF ip \notin Allocated(mem) THEN {Out(mem, store, Err("notfound"), 0)}
    ELSE IF mem[ip].key # key THEN {Out(mem, store, Err("keymismatch"), 0)}
    ELSE LET u == SUpdate(store, ip, key, attr, now, f, 0) IN
         IF u.ok THEN {Out(Put(mem, ip, MemOf(key, attr, mem[ip].lab, now)), u.store, Ok, u.calls)}
         ELSE {Out(mem, store, Err("update"), u.calls)}

(* ---- Release ---------------------------------------------------------- *)
Release(mem, store, key, ip, f) ==
    IF ip \notin Allocated(mem) THEN {Out(mem, store, Err("notfound"), 0)}
    ELSE IF mem[ip].key # key THEN {Out(mem, store, Err("keymismatch"), 0)}
    ELSE LET d == SDelete(store, ip, f = 1) IN
         IF d.ok THEN {Out(Put(mem, ip, FreeRec), d.store, Ok, 1)}
         ELSE {Out(mem, store, Err("delete"), 1)}

(* ---- ReleaseIPs(ip -> key): any order, stops at the first failed delete *)
RECURSIVE ReleaseSeq(_, _, _, _, _, _)
ReleaseSeq(mem, store, todo, want, f, base) ==
    IF todo = {} THEN {[mem |-> mem, store |-> store, ok |-> TRUE, calls |-> base]}
    ELSE UNION { IF ip \in Allocated(mem) /\ mem[ip].key = want[ip]
                   THEN LET d == SDelete(store, ip, f = base + 1) IN
                        IF d.ok THEN ReleaseSeq(Put(mem, ip, FreeRec), d.store, todo \ {ip}, want, f, base + 1)
                        ELSE {[mem |-> mem, store |-> store, ok |-> FALSE, calls |-> base + 1]}
                   ELSE ReleaseSeq(mem, store, todo \ {ip}, want, f, base)
               : ip \in todo }

ReleaseIPs(mem, store, want, f) ==
    IF Allocated(mem) = {} THEN {Out(mem, store, Ok, 0)}
    ELSE { Out(r.mem, r.store, IF r.ok THEN Ok ELSE Err("delete"), r.calls)
         : r \in ReleaseSeq(mem, store, DOMAIN want, want, f, 0) }

(* ---- AllocateInSubnetsAndIPRange -------------------------------------- *)
(* ranges: sequence of sets of IPs; per range the LOWEST eligible IP (the  *)
(* code walks the range in address order) not picked for an earlier range. *)
(* Order(ip) gives the address order.                                       *)
RECURSIVE PickSeq(_, _, _, _, _, _)
PickSeq(mem, pools, subnet, ranges, i, picked) ==
    IF i > Len(ranges) THEN picked
    ELSE LET el == {ip \in ranges[i] : ip \in Unallocated(mem) /\ subnet \in SubnetsOf(pools, ip)
                                       /\ \A j \in 1..Len(picked) : picked[j] # ip}
         IN IF el = {} THEN <<"none">>
            ELSE LET ip == CHOOSE x \in el : \A y \in el : Order(x) <= Order(y)
                 IN PickSeq(mem, pools, subnet, ranges, i + 1, Append(picked, ip))

RECURSIVE CreateSeq(_, _, _, _, _, _, _)
\* returns [store, failedAt] ; failedAt = 0 when all created
CreateSeq(store, ips, i, key, attr, now, f) ==
    IF i > Len(ips) THEN [store |-> store, failedAt |-> 0]
    ELSE LET c == SCreate(store, ips[i], StoreOf(key, attr, FALSE, now), f = i) IN
         IF c.ok THEN CreateSeq(c.store, ips, i + 1, key, attr, now, f)
         ELSE [store |-> store, failedAt |-> i]

RECURSIVE RollbackSeq(_, _, _, _, _, _)
\* delete ips[1..n] ; delete errors are ignored (logged only); call numbers continue at base
RollbackSeq(store, ips, j, n, f, base) ==
    IF j > n THEN store
    ELSE RollbackSeq(SDelete(store, ips[j], f = base + j).store, ips, j + 1, n, f, base)

RECURSIVE CommitAll(_, _, _, _, _, _)
CommitAll(mem, ips, i, key, attr, now) ==
    IF i > Len(ips) THEN mem
    ELSE CommitAll(Put(mem, ips[i], MemOf(key, attr, FALSE, now)), ips, i + 1, key, attr, now)

AllocateInSubnetsAndIPRange(mem, store, pools, key, subnet, ranges, attr, now, f) ==
    IF Len(ranges) = 0 THEN AllocateInSubnet(mem, store, pools, key, subnet, attr, now, f)
    ELSE LET picked == PickSeq(mem, pools, subnet, ranges, 1, <<>>) IN
         IF picked = <<"none">> THEN {Out(mem, store, Err("noip"), 0)}
         ELSE LET c == CreateSeq(store, picked, 1, key, attr, now, f) IN
              IF c.failedAt = 0
                THEN {Out(CommitAll(mem, picked, 1, key, attr, now), c.store, OkIPs(picked), Len(picked))}
                ELSE {Out(mem, RollbackSeq(c.store, picked, 1, c.failedAt - 1, 0, c.failedAt),
                          Err("create"), 2 * c.failedAt - 1)}

(* ---- AllocateSpecificIP: three real sections --------------------------- *)
\* section 1 (RLock): is ip unallocated?   section 2 (no lock): create   section 3 (Lock): commit blindly
SpecificCheck(mem, ip) == ip \in Unallocated(mem)
SpecificCreate(store, key, ip, attr, now, f) == SCreate(store, ip, StoreOf(key, attr, FALSE, now), f = 1)
SpecificCommit(mem, key, ip, attr, now) == Put(mem, ip, MemOf(key, attr, FALSE, now))
\* the method when nothing interleaves
AllocateSpecificIP(mem, store, key, ip, attr, now, f) ==
    IF ~SpecificCheck(mem, ip) THEN {Out(mem, store, Err("notfound"), 0)}
    ELSE LET c == SpecificCreate(store, key, ip, attr, now, f) IN
         IF c.ok THEN {Out(SpecificCommit(mem, key, ip, attr, now), c.store, Ok, 1)}
         ELSE {Out(mem, store, Err("create"), 1)}

(* ---- ConfigurePool: list (no lock) ; swap + delete + rebuild (lock) ---- *)
\* listed: the store snapshot the method works from.  Objects outside the new configuration are
\* deleted (errors ignored); memory is rebuilt from `listed` only.
RECURSIVE DeleteAll(_, _, _, _)
DeleteAll(store, todo, f, base) ==
    \* deterministic result irrespective of order unless a fault hits: enumerate orders only via f
    IF todo = {} THEN store
    ELSE LET ip == CHOOSE x \in todo : TRUE IN
         DeleteAll(SDelete(store, ip, f = base + 1).store, todo \ {ip}, f, base + 1)

ConfigureSwap(store, listed, newPools, f) ==
    LET conf == ConfIPs(newPools)
        keep == {ip \in DOMAIN listed : ip \in conf}
        drop == {ip \in DOMAIN listed : ip \notin conf}
        mem2 == [ip \in conf |->
                   IF ip \in keep
                     THEN [key |-> listed[ip].key, policy |-> listed[ip].policy, uid |-> listed[ip].uid,
                           node |-> listed[ip].node, lab |-> listed[ip].lab, ts |-> listed[ip].ts]
                     ELSE FreeRec]
    IN [mem |-> mem2, drop |-> drop]

\* atomic ConfigurePool (list and swap with nothing in between); the list call is call 1
ConfigurePool(mem, store, newPools, f) ==
    IF f = 1 THEN {Out(mem, store, Err("list"), 1)}
    ELSE LET sw == ConfigureSwap(store, store, newPools, f) IN
         { Out(sw.mem, st2, Ok, 1 + Cardinality(sw.drop))
         : st2 \in { [ip \in (DOMAIN store) \ (sw.drop \ failed) |-> store[ip]]
                   : failed \in IF f >= 2 /\ f <= 1 + Cardinality(sw.drop)
                                  THEN {{x} : x \in sw.drop} ELSE {{}} } }

\* watch events produced by ConfigurePool deleting labelled objects (in address order)
RECURSIVE SeqOfSet(_)
SeqOfSet(S) == IF S = {} THEN <<>>
               ELSE LET x == CHOOSE y \in S : \A z \in S : Order(y) <= Order(z) IN <<x>> \o SeqOfSet(S \ {x})
DropEvents(store, drop) ==
    \* (an object that was listed but is gone by the time it would be deleted produces no event)
    LET labs == SeqOfSet({ip \in drop \cap DOMAIN store : store[ip].lab}) IN [i \in 1..Len(labs) |-> [type |-> "del", ip |-> labs[i]]]

(* ---- reservation watch events ------------------------------------------ *)
HandleFIPAssign(mem, ip, key, policy, now) ==
    IF ip \in Allocated(mem) \/ ip \notin DOMAIN mem THEN mem
    ELSE Put(mem, ip, [key |-> key, policy |-> policy, uid |-> "", node |-> "", lab |-> TRUE, ts |-> now])
\* (repaired code: only a record that carries the reservation label is released by the event)
HandleFIPUnassign(mem, ip) ==
    IF ip \in Allocated(mem) /\ mem[ip].lab THEN Put(mem, ip, FreeRec) ELSE mem

(* ---- readers ------------------------------------------------------------ *)
ByKey(mem, key) == KeyIPs(mem, key)
ByPrefixIPs(mem, pre) == IF pre = NoKey THEN DOMAIN mem
                         ELSE {ip \in Allocated(mem) : HasPrefix(mem[ip].key, pre)}
\* ByKeyAndIPRanges with ranges: per range the lowest IP of the range keyed to key, or "none"
ByKeyAndRanges(mem, key, ranges) ==
    [i \in 1..Len(ranges) |->
       LET el == {ip \in ranges[i] : ip \in Allocated(mem) /\ mem[ip].key = key} IN
       IF el = {} THEN "none" ELSE CHOOSE x \in el : \A y \in el : Order(x) <= Order(y)]
\* NodeSubnetsByIPRanges
FreeSubnets(mem, pools) == UNION {SubnetsOf(pools, ip) : ip \in Unallocated(mem)}
RECURSIVE RangeSubnets(_, _, _, _, _)
RangeSubnets(mem, pools, ranges, i, acc) ==
    IF i > Len(ranges) THEN acc
    ELSE LET part == UNION {SubnetsOf(pools, ip) : ip \in {x \in ranges[i] : x \in Unallocated(mem)}} IN
         IF part = {} THEN {}
         ELSE RangeSubnets(mem, pools, ranges, i + 1, IF acc = {} THEN part ELSE acc \cap part)
NodeSubnetsByIPRanges(mem, pools, ranges) ==
    IF Len(ranges) = 0 THEN FreeSubnets(mem, pools) ELSE RangeSubnets(mem, pools, ranges, 1, {})

(* ---- agreement of memory and store (C05) -------------------------------- *)
AgreeOn(mem, store, ip) ==
    /\ (ip \in DOMAIN store) <=> ~IsFree(mem[ip])
    /\ ip \in DOMAIN store =>
         /\ store[ip].key = mem[ip].key /\ store[ip].policy = mem[ip].policy
         /\ store[ip].uid = mem[ip].uid /\ store[ip].node = mem[ip].node
\* (objects of IPs outside the configuration are not the IPAM's: C05 speaks of configured IPs)
MemStoreAgreeExcept(mem, store, pending) ==
    \A ip \in DOMAIN mem : ip \notin pending => AgreeOn(mem, store, ip)
=============================================================================
