---------------------------- MODULE Trace_IPAMCore ----------------------------
(***************************************************************************)
(* Validates traces recorded from the real floatingip.IPAM (coredrive)     *)
(* against the operators of IPAMCore.  Every line is one event with its    *)
(* arguments, its result and the projected post-state.  For each line:     *)
(*   conformance : the logged result and post-state must be one of the     *)
(*                 outcomes the IPAMCore operator allows from the current  *)
(*                 state (else the line is recorded in `div` and the state *)
(*                 is re-synchronised on the log);                          *)
(*   properties  : the C05/C08/C09 predicates are evaluated on EVERY       *)
(*                 observed state/step and recorded in `viol` (TLC never   *)
(*                 stops early, so every trace of the file is examined).   *)
(* Many traces are concatenated; a "Reset" line starts a new one.          *)
(***************************************************************************)
EXTENDS IPAMCore, Json

CONSTANT TraceFile
Trace == ndJsonDeserialize(TraceFile)

VARIABLES l, tid, mem, store, pools, alive, fev, sec, configs, clock, viol, div, stats
vars == <<l, tid, mem, store, pools, alive, fev, sec, configs, clock, viol, div, stats>>

TrIPSeq == <<"ip1", "ip2", "ip3", "ip4", "ip5", "ip6", "ip7", "ip8">>

ToSet(s) == {s[i] : i \in 1..Len(s)}
PoolsOfLog(p) == [id \in DOMAIN p |-> [subnets |-> ToSet(p[id].subnets), ips |-> ToSet(p[id].ips)]]
Strip(m) == [ip \in DOMAIN m |-> [key |-> m[ip].key, policy |-> m[ip].policy, uid |-> m[ip].uid,
                                   node |-> m[ip].node, lab |-> m[ip].lab]]
MemOfLog(m) == [ip \in DOMAIN m |-> [key |-> m[ip].key, policy |-> m[ip].policy, uid |-> m[ip].uid,
                                      node |-> m[ip].node, lab |-> m[ip].lab, ts |-> m[ip].ts]]
StoreOfLog(s, m) == [ip \in DOMAIN s |-> [key |-> s[ip].key, policy |-> s[ip].policy, uid |-> s[ip].uid,
                                           node |-> s[ip].node, lab |-> s[ip].lab,
                                           ts |-> IF ip \in DOMAIN m THEN m[ip].ts ELSE 0]]
FevOfLog(f) == [i \in 1..Len(f) |-> [type |-> f[i].type, ip |-> f[i].ip]]
RangesOfLog(r) == [i \in 1..Len(r) |-> ToSet(r[i])]
AttrOfLog(a) == [policy |-> a.policy, uid |-> a.uid, node |-> a.node]
NoSec == [kind |-> "none"]

Has(e, f) == f \in DOMAIN e

(* ---- what the model allows for an atomic-method event: set of outcomes [mem, store, ret, calls] ---- *)
Outcomes(e) ==
    LET f == e.f IN
    CASE e.ev = "AllocateInSubnet" ->
           AllocateInSubnet(mem, store, pools, e.key, e.subnet, AttrOfLog(e.attr), clock, f)
      [] e.ev = "AllocateInSubnetWithKey" ->
           AllocateInSubnetWithKey(mem, store, pools, e.oldK, e.newK, e.subnet, AttrOfLog(e.attr), clock, f)
      [] e.ev = "ReserveIP" -> ReserveIP(mem, store, e.oldK, e.newK, AttrOfLog(e.attr), clock, f)
      [] e.ev = "UpdateAttr" -> UpdateAttr(mem, store, e.key, e.ip, AttrOfLog(e.attr), clock, f)
      [] e.ev = "Release" -> Release(mem, store, e.key, e.ip, f)
      [] e.ev = "ReleaseIPs" -> ReleaseIPs(mem, store, e.want, f)
      [] e.ev = "AllocateMulti" ->
           AllocateInSubnetsAndIPRange(mem, store, pools, e.key, e.subnet, RangesOfLog(e.ranges),
                                       AttrOfLog(e.attr), clock, f)
      [] OTHER -> {}

Atomic == {"AllocateInSubnet", "AllocateInSubnetWithKey", "ReserveIP", "UpdateAttr", "Release", "ReleaseIPs",
           "AllocateMulti"}

RetMatches(o, e) ==
    /\ o.ret.ok = e.ret.ok
    /\ o.ret.ips = e.ret.ips
    /\ o.calls = e.calls
    /\ (Has(e.ret, "reserved") => o.ret.reserved = e.ret.reserved)

Matching(e) == {o \in Outcomes(e) : RetMatches(o, e) /\ Strip(o.mem) = Strip(e.mem) /\ Strip(o.store) = e.store}

(* ---- properties over one observed step (pre-state = unprimed variables, post-state = arguments) ---- *)
PendingOf(f) == {f[i].ip : i \in 1..Len(f)}
AgreeViol(m, s, al, sc, fv) ==
    al /\ sc.kind # "cfg" /\
    ~MemStoreAgreeExcept(m, s, PendingOf(fv) \cup (IF sc.kind = "specific" THEN {sc.ip} ELSE {}))

StepViolations(e, m2, s2, p2, al2, sc2, fv2) ==
    LET V(name, bad) == IF bad THEN {[prop |-> name, line |-> l, trace |-> tid, ev |-> e.ev]} ELSE {} IN
    \* C05: memory and store agree at every operation boundary
       V("MemStoreAgree", AgreeViol(m2, s2, al2, sc2, fv2))
    \* C05: a restart reconstructs memory from the store exactly
    \cup V("RestartReconstructs", e.ev = "Restart" /\ \E ip \in DOMAIN m2 : ~AgreeOn(m2, s2, ip))
    \* C08: a failed multi-IP allocation leaves nothing behind
    \cup V("MultiAllOrNothing", e.ev = "AllocateMulti" /\ ~e.ret.ok /\ (Strip(m2) # Strip(mem) \/ Strip(s2) # Strip(store)))
    \* C08: a successful one: one IP per range, in order, distinct, routable, all keyed to the caller
    \cup V("MultiInRangeOrdered",
           e.ev = "AllocateMulti" /\ e.ret.ok /\ Len(e.ranges) > 0 /\
           ~( /\ Len(e.ret.ips) = Len(e.ranges)
              /\ \A i \in 1..Len(e.ret.ips) :
                   /\ e.ret.ips[i] \in ToSet(e.ranges[i])
                   /\ e.ret.ips[i] \in DOMAIN m2 /\ m2[e.ret.ips[i]].key = e.key
                   /\ e.ret.ips[i] \in ConfIPs(p2) /\ e.subnet \in SubnetsOf(p2, e.ret.ips[i])
                   /\ \A j \in 1..Len(e.ret.ips) : i # j => e.ret.ips[i] # e.ret.ips[j] ))
    \* C09: while an administrator's labelled object exists, memory never gives the IP to anybody else
    \cup V("ReservedNotAllocated",
           al2 /\ \E ip \in (DOMAIN s2) \cap (DOMAIN m2) : s2[ip].lab /\ ~IsFree(m2[ip]) /\ ~m2[ip].lab)
    \* C09: a reserved object in the store is never overwritten by an allocation
    \cup V("ReservedObjectKept",
           e.ev \notin {"AdminUnreserve", "CfgSwap", "Reload", "Restart"} /\
           \E ip \in DOMAIN store : store[ip].lab /\ (ip \notin DOMAIN s2 \/ s2[ip].key # store[ip].key))
    \* C09: nothing outside the configuration is allocated; a reload drops exactly the de-configured IPs
    \cup V("OnlyConfigured", al2 /\ sc2.kind # "specific" /\ DOMAIN m2 # ConfIPs(p2))
    \* C09: reload/restart keeps every persisted allocation whose IP is still configured, unchanged
    \cup V("ReloadLossless",
           e.ev \in {"CfgSwap", "Reload", "Restart"} /\
           \E ip \in DOMAIN store : ip \in ConfIPs(p2) /\
               (ip \notin DOMAIN s2 \/ Strip(s2)[ip] # Strip(store)[ip] \/ ip \notin DOMAIN m2 \/ ~AgreeOn(m2, s2, ip)))
    \cup V("ReloadDropsExactlyOthers",
           e.ev \in {"CfgSwap", "Reload"} /\ \E ip \in DOMAIN s2 : ip \notin ConfIPs(p2))
    \* C01 (core part): an allocation never takes an IP that is allocated in memory to another key
    \cup V("NoSteal",
           e.ev \in Atomic \cup {"SpecificCommit"} /\ alive /\ al2 /\
           \E ip \in DOMAIN mem \cap DOMAIN m2 :
               ~IsFree(mem[ip]) /\ ~IsFree(m2[ip]) /\ m2[ip].key # mem[ip].key /\
               e.ev \notin {"AllocateInSubnetWithKey", "ReserveIP"})

Count(name) == stats' = [stats EXCEPT ![name] = @ + 1]

Init ==
    /\ l = 1 /\ tid = 0
    /\ mem = <<>> /\ store = <<>> /\ pools = <<>> /\ alive = TRUE /\ fev = <<>> /\ sec = NoSec
    /\ configs = <<>> /\ clock = 100
    /\ viol = {} /\ div = {}
    /\ stats = [events |-> 0, traces |-> 0, conform |-> 0]

\* state taken from the log line
LogMem(e) == MemOfLog(e.mem)
LogStore(e) == StoreOfLog(e.store, e.mem)

Reset(e) ==
    /\ tid' = e.trace
    /\ configs' = [i \in 1..Len(e.configs) |-> PoolsOfLog(e.configs[i])]
    /\ mem' = LogMem(e) /\ store' = LogStore(e) /\ pools' = PoolsOfLog(e.pools)
    /\ alive' = e.alive /\ fev' = FevOfLog(e.fev) /\ sec' = NoSec
    /\ clock' = 100
    /\ viol' = viol /\ div' = div
    /\ stats' = [stats EXCEPT !.traces = @ + 1, !.events = @ + 1]

\* generic: conformant successor states proposed by the model for this line: set of [mem, store, pools, alive, fev, sec]
Proposed(e) ==
    LET S(m, s, p, a, f, c) == [mem |-> m, store |-> s, pools |-> p, alive |-> a, fev |-> f, sec |-> c] IN
    CASE e.ev \in Atomic ->
           IF alive THEN {S(o.mem, o.store, pools, alive, fev, sec) : o \in Matching(e)} ELSE {}
      [] e.ev = "SpecificCheck" ->
           IF alive /\ sec = NoSec /\ e.ret.ok = SpecificCheck(mem, e.ip)
             THEN {S(mem, store, pools, alive, fev,
                     IF e.ret.ok THEN [kind |-> "specific", key |-> e.key, ip |-> e.ip, attr |-> AttrOfLog(e.attr), ts |-> clock]
                     ELSE NoSec)}
             ELSE {}
      [] e.ev = "SpecificCreate" ->
           IF sec.kind = "specific"
             THEN LET c == SpecificCreate(store, sec.key, sec.ip, sec.attr, sec.ts, e.f) IN
                  IF c.ok = e.ret.ok
                    THEN {S(mem, c.store, pools, alive, fev, IF c.ok THEN sec ELSE NoSec)}
                    ELSE {}
             ELSE {}
      [] e.ev = "SpecificCommit" ->
           IF sec.kind = "specific"
             THEN {S(SpecificCommit(mem, sec.key, sec.ip, sec.attr, sec.ts), store, pools, alive, fev, NoSec)}
             ELSE {}
      [] e.ev = "CfgList" ->
           IF alive /\ sec = NoSec
             THEN IF e.f = 1 THEN (IF ~e.ret.ok THEN {S(mem, store, pools, alive, fev, NoSec)} ELSE {})
                  ELSE (IF e.ret.ok THEN {S(mem, store, pools, alive, fev, [kind |-> "cfg", listed |-> store, conf |-> e.conf])} ELSE {})
             ELSE {}
      [] e.ev = "CfgSwap" ->
           IF sec.kind = "cfg"
             THEN LET sw == ConfigureSwap(store, sec.listed, configs[sec.conf], 0) IN
                  {S(sw.mem, [ip \in (DOMAIN store) \ sw.drop |-> store[ip]], configs[sec.conf], alive,
                     fev \o DropEvents(store, sw.drop), NoSec)}
             ELSE {}
      [] e.ev = "Reload" ->
           IF alive /\ sec = NoSec
             THEN LET sw == ConfigureSwap(store, store, configs[e.conf], 0) IN
                  {S(sw.mem, [ip \in (DOMAIN store) \ sw.drop |-> store[ip]], configs[e.conf], alive,
                     fev \o DropEvents(store, sw.drop), NoSec)}
             ELSE {}
      [] e.ev = "AdminReserve" ->
           IF e.ip \notin DOMAIN store
             THEN {S(mem, Put(store, e.ip, [key |-> LogStore(e)[e.ip].key, policy |-> 2, uid |-> "", node |-> "", lab |-> TRUE, ts |-> clock]),
                     pools, alive, Append(fev, [type |-> "add", ip |-> e.ip]), sec)}
             ELSE {}
      [] e.ev = "AdminUnreserve" ->
           IF e.ip \in DOMAIN store /\ store[e.ip].lab
             THEN {S(mem, Del(store, e.ip), pools, alive, Append(fev, [type |-> "del", ip |-> e.ip]), sec)}
             ELSE {}
      [] e.ev = "DeliverFev" ->
           IF alive /\ fev # <<>>
             THEN LET h == Head(fev) IN
                  {S(IF h.type = "add"
                       THEN (IF h.ip \in DOMAIN store THEN HandleFIPAssign(mem, h.ip, store[h.ip].key, 2, clock)
                             ELSE HandleFIPAssign(mem, h.ip, LogMem(e)[h.ip].key, 2, clock))
                       ELSE HandleFIPUnassign(mem, h.ip),
                     store, pools, alive, Tail(fev), sec)}
             ELSE {}
      [] e.ev = "Crash" -> {S(<<>>, store, pools, FALSE, <<>>, NoSec)}
      [] e.ev = "CrashInMulti" ->
           LET picked == PickSeq(mem, pools, e.subnet, RangesOfLog(e.ranges), 1, <<>>) IN
           IF alive /\ picked # <<"none">> /\ e.j <= Len(picked)
             THEN {S(<<>>, CreateSeq(store, picked, 1, e.key, AttrOfLog(e.attr), clock, e.j + 1).store, pools, FALSE, <<>>, NoSec)}
             ELSE {}
      [] e.ev = "Restart" ->
           IF ~alive
             THEN LET sw == ConfigureSwap(store, store, pools, 0) IN
                  {S(sw.mem, [ip \in (DOMAIN store) \ sw.drop |-> store[ip]], pools, TRUE, fev, NoSec)}
             ELSE {}
      [] OTHER -> {}

\* does a proposed state equal the logged one (timestamps apart)?
Same(s, e) ==
    IF Has(e, "same") THEN TRUE
    ELSE /\ Strip(s.mem) = Strip(e.mem)
         /\ Strip(s.store) = e.store
         /\ s.pools = PoolsOfLog(e.pools)
         /\ s.alive = e.alive
         /\ s.fev = FevOfLog(e.fev)

Event(e) ==
    LET good == {s \in Proposed(e) : Same(s, e)} IN
    /\ tid' = tid /\ configs' = configs /\ clock' = clock + 1
    /\ IF good # {}
         THEN \E s \in good :
                /\ mem' = s.mem /\ store' = s.store /\ pools' = s.pools /\ alive' = s.alive /\ fev' = s.fev /\ sec' = s.sec
                /\ div' = div
                /\ viol' = viol \cup StepViolations(e, s.mem, s.store, s.pools, s.alive, s.sec, s.fev)
                /\ stats' = [stats EXCEPT !.events = @ + 1, !.conform = @ + 1]
         ELSE \* not a step of the model: record it, re-synchronise on the log, keep evaluating the properties
              LET m2 == IF Has(e, "same") THEN mem ELSE LogMem(e)
                  s2 == IF Has(e, "same") THEN store ELSE LogStore(e)
                  p2 == IF Has(e, "same") THEN pools ELSE PoolsOfLog(e.pools)
                  a2 == IF Has(e, "same") THEN alive ELSE e.alive
                  f2 == IF Has(e, "same") THEN fev ELSE FevOfLog(e.fev)
                  c2 == CASE e.ev = "SpecificCheck" /\ e.ret.ok -> [kind |-> "specific", key |-> e.key, ip |-> e.ip, attr |-> AttrOfLog(e.attr), ts |-> clock]
                          [] e.ev = "SpecificCreate" /\ e.ret.ok -> sec
                          [] e.ev = "CfgList" /\ e.ret.ok -> [kind |-> "cfg", listed |-> store, conf |-> e.conf]
                          [] OTHER -> NoSec
              IN /\ mem' = m2 /\ store' = s2 /\ pools' = p2 /\ alive' = a2 /\ fev' = f2 /\ sec' = c2
                 /\ div' = div \cup {[line |-> l, trace |-> tid, ev |-> e.ev]}
                 /\ viol' = viol \cup StepViolations(e, m2, s2, p2, a2, c2, f2)
                 /\ stats' = [stats EXCEPT !.events = @ + 1]

Next ==
    /\ l <= Len(Trace)
    /\ l' = l + 1
    /\ LET e == Trace[l] IN IF e.ev = "Reset" THEN Reset(e) ELSE Event(e)

Spec == Init /\ [][Next]_vars

\* printed once, in the state that consumed the whole file
Report ==
    l <= Len(Trace) \/
    PrintT(<<"REPORT", ToJson([lines |-> Len(Trace), consumed |-> l - 1, viol |-> viol, div |-> div, stats |-> stats])>>)
=============================================================================
