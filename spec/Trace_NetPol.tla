----------------------------- MODULE Trace_NetPol -----------------------------
(***************************************************************************)
(* Validates traces recorded from galaxy's real PolicyManager driven over  *)
(* the strict kernel model (harness/cmd/poldrive).  Every line carries the  *)
(* abstract cluster, the abstract kernel state left by the real code and    *)
(* the submissions the kernel refused.  TLC evaluates on every line:        *)
(*   C15  SyncExact        after a fault-free full synchronisation the      *)
(*                          galaxy-owned sets and chains are Derived(c)      *)
(*        Idempotent       synchronising again changes nothing              *)
(*        ForeignUntouched nothing galaxy does not own ever changes         *)
(*        NoDanglingBatch  the kernel never refused a submission because    *)
(*                          it referenced a chain or set that did not exist  *)
(*   C16  Semantics        after a fault-free full synchronisation, for     *)
(*                          every flow of the universe the verdict of the    *)
(*                          installed table equals K8sAllows; a difference    *)
(*                          that the design (Derived with its named          *)
(*                          departures) also shows is tagged with the        *)
(*                          departure classes that explain it                *)
(***************************************************************************)
EXTENDS PolicyManager, Json

CONSTANT TraceFile
Trace == ndJsonDeserialize(TraceFile)

VARIABLES l, tid, U, c, K, K0, Kprev, viol, stats, mgr, div, lastExact
vars == <<l, tid, U, c, K, K0, Kprev, viol, stats, mgr, div, lastExact>>

ToSet(s) == {s[i] : i \in 1..Len(s)}
Has(e, f) == f \in DOMAIN e

SelOfLog(s) == [has |-> s.has, labels |-> ToSet(s.labels)]
PeerOfLog(p) == [pod |-> SelOfLog(p.pod), ns |-> SelOfLog(p.ns), block |-> p.block, except |-> ToSet(p.except)]
RuleOfLog(r) == [ports |-> [i \in 1..Len(r.ports) |-> [proto |-> r.ports[i].proto, port |-> r.ports[i].port]],
                 peers |-> [i \in 1..Len(r.peers) |-> PeerOfLog(r.peers[i])]]
PolOfLog(p) == [name |-> p.name, ns |-> p.ns, sel |-> ToSet(p.sel), types |-> ToSet(p.types),
                ingress |-> [i \in 1..Len(p.ingress) |-> RuleOfLog(p.ingress[i])],
                egress |-> [i \in 1..Len(p.egress) |-> RuleOfLog(p.egress[i])]]
PodOfLog(p) == [name |-> p.name, ns |-> p.ns, labels |-> ToSet(p.labels), ip |-> p.ip, local |-> p.local]
ClusterOfLog(x) == [nss |-> [n \in DOMAIN x.namespaces |-> ToSet(x.namespaces[n])],
                    pods |-> [k \in DOMAIN x.pods |-> PodOfLog(x.pods[k])],
                    pols |-> [k \in DOMAIN x.policies |-> PolOfLog(x.policies[k])]]
KRuleOfLog(r) == [src |-> r.src, dst |-> r.dst, proto |-> r.proto, sets |-> [i \in 1..Len(r.sets) |-> [set |-> r.sets[i].set, dir |-> r.sets[i].dir]],
                  ports |-> r.ports, ct |-> r.ct, target |-> r.target, opaque |-> r.opaque]
KernelOfLog(e) == [sets |-> [n \in DOMAIN e.sets |-> [type |-> e.sets[n].type, members |-> ToSet(e.sets[n].members)]],
                   chains |-> [n \in DOMAIN e.chains |-> [i \in 1..Len(e.chains[n]) |-> KRuleOfLog(e.chains[n][i])]]]
UniverseOfLog(e) == [addrs |-> ToSet(e.addrs), blocks |-> [b \in DOMAIN e.blocks |-> ToSet(e.blocks[b])],
                     plen |-> e.plen, unstorable |-> ToSet(e.unstorable)]

Flows(u) == [src : u.addrs, dst : u.addrs, proto : {"tcp", "udp"}, port : {"80", "443", "53", "99"}]

Init ==
    /\ l = 1 /\ tid = 0 /\ viol = {}
    /\ U = [addrs |-> {}, blocks |-> Emp, plen |-> Emp, unstorable |-> {}]
    /\ c = [nss |-> Emp, pods |-> Emp, pols |-> Emp]
    /\ K = [sets |-> Emp, chains |-> Emp] /\ K0 = [sets |-> Emp, chains |-> Emp] /\ Kprev = [sets |-> Emp, chains |-> Emp]
    /\ stats = [events |-> 0, traces |-> 0, syncs |-> 0, flows |-> 0, denied |-> 0, exactok |-> 0, conform |-> 0, judged |-> 0]
    /\ mgr = NoCluster /\ div = {} /\ lastExact = FALSE

CanonK(k) == [sets |-> NormSets(k.sets),
              chains |-> [n \in DOMAIN k.chains |-> IF OwnedName(n) THEN [bag |-> BagOf(k.chains[n]), seq |-> <<>>] ELSE [bag |-> Emp, seq |-> k.chains[n]]]]
V(name, bad, tag, detail) == IF bad THEN {[prop |-> name, line |-> l, trace |-> tid, tag |-> tag, detail |-> detail]} ELSE {}

\* ---- known shapes of non-convergence (each a class of its own; anything else is unexplained) ----
\* chains of pods that are gone (or no longer selected) which a synchronisation found and left in place
StalePodChains(K2, D) == {n \in (DOMAIN OwnedChains(K2)) \ (DOMAIN D.chains) : Prefixed(n, "podc:")}
\* policy chains of policies that are gone but that some chain still jumps to: deleting them is refused by the kernel
\* ("Too many links") and, the batch being atomic, nothing of the batch is applied
StaleBusyPolicyChains(K2, D) ==
    {n \in (DOMAIN OwnedChains(K2)) \ (DOMAIN D.chains) :
        Prefixed(n, "plcy:") /\ \E m \in DOMAIN K2.chains : \E i \in 1..Len(K2.chains[m]) : K2.chains[m][i].target = n}
\* the difference is exactly: stale pod chains and the dispatch rules that jump to them
OnlyStalePodChains(K2, D) ==
    LET stale == StalePodChains(K2, D)
        kc == OwnedChains(K2)
        keep(n) == IF n \in DOMAIN kc THEN SelectSeq(kc[n], LAMBDA r : r.target \notin stale) ELSE <<>>
        K3 == [sets |-> K2.sets,
               chains |-> [n \in (DOMAIN K2.chains) \ stale |-> IF n \in {"ingress", "egress"} THEN keep(n) ELSE K2.chains[n]]] IN
    stale # {} /\ SameOwned(K3, D)
\* Kb: the kernel state the synchronisation started from
ExactTag(Kb, K2, D) ==
    IF SameOwned(K2, D) THEN "ok"
    ELSE IF StaleBusyPolicyChains(K2, D) # {} \/ StaleBusyPolicyChains(Kb, D) # {} THEN "stalePolicyChainInUse"
    ELSE IF OnlyStalePodChains(K2, D) THEN "stalePodChain"
    ELSE "unexplained"

\* the flows on which the installed table and the API semantics disagree, grouped by explanation
SemanticViolations(e, c2, K2) ==
    LET bad == {f \in Flows(U) : f.src # f.dst /\ Walk(K2, U, f) # K8sAllows(c2, U, f)}
        \* a disagreement the design shows as well is a departure of the design; otherwise the code departs from its design
        tagOf(f) == IF Walk(K2, U, f) # DesignAllows(c2, U, f, AllDevs) THEN {"unexplained"}
                    ELSE LET x == Explains(c2, U, f) IN IF x = {} THEN {"combined"} ELSE x
        tags == UNION {tagOf(f) : f \in bad}
    IN UNION {V("Semantics", TRUE, t, LET f == CHOOSE f \in bad : t \in tagOf(f) IN
                   [flow |-> f, installed |-> Walk(K2, U, f), api |-> K8sAllows(c2, U, f), count |-> Cardinality({g \in bad : t \in tagOf(g)})]) : t \in tags}

\* a synchronisation point: a fault-free full synchronisation, or a handled policy event (which runs the same three passes)
IsSync(e) == \/ e.ev = "FullSync" /\ ~(Has(e, "fault") /\ e.fault)
             \/ e.ev \in {"AddPolicy", "UpdatePolicy", "DeletePolicy"} /\ e.handled

LineViolations(e, c2, K2) ==
    LET sync == IsSync(e)
        D == Derived(c2, U, AllDevs)
        xt == IF sync THEN ExactTag(K, K2, D) ELSE "ok"
        \* refusals that follow from a stale policy chain in use (before or after this line) belong to that class
        busy == StaleBusyPolicyChains(K2, D) # {} \/ StaleBusyPolicyChains(K, D) # {}
        \* was the synchronisation before this one exact?  (a second pass that changes something follows a first that did not converge)
        prevTag == ExactTag(Kprev, K, Derived(c, U, AllDevs)) IN
       V("ForeignUntouched", e.ev # "Reset" /\ ForeignPart(K2) # ForeignPart(K0), "", [x |-> 0])
    \cup V("NoDanglingBatch", \E i \in 1..Len(e.rejected) : e.rejected[i].class = "dangling", IF busy THEN "stalePolicyChainInUse" ELSE "",
           LET i == CHOOSE i \in 1..Len(e.rejected) : e.rejected[i].class = "dangling" IN [op |-> e.rejected[i].op, reason |-> e.rejected[i].reason, ev |-> e.ev])
    \cup V("SyncExact", sync /\ xt # "ok", IF xt = "unexplained" THEN "" ELSE xt, [ev |-> e.ev, diff |-> OwnedDiff(K2, D)])
    \cup V("Idempotent", e.ev = "FullSync" /\ sync /\ e.tag = "again" /\ CanonK(K2) # CanonK(K),
           IF prevTag \in {"ok", "unexplained"} THEN "" ELSE prevTag, [x |-> 0])
    \* between synchronisations the pod handlers keep the sets and the pod's own chain up to date: after a handled pod event
    \* (all events since the last synchronisation point handled) no derived set lacks a member and the chain of the pod is exact
    \cup V("PodEventKeepsUp",
           e.ev \in {"UpdatePod", "DeletePod"} /\ e.tracked /\ lastExact /\     \* (nothing to keep up with after a synchronisation that did not converge)
           (\/ \E n \in DOMAIN D.sets : n \notin DOMAIN K2.sets \/ ~(D.sets[n].members \subseteq K2.sets[n].members)
            \* the address of a deleted pod has left the sets its labels made it a member of (an address left behind by an
            \* earlier label change is removed by the next synchronisation only: that is the handlers' design)
            \/ e.ev = "DeletePod" /\ e.obj \in DOMAIN c.pods /\ c.pods[e.obj].ip # "" /\
               \E n \in SetsOfPod(c2, mgr, c.pods[e.obj]) \cap (DOMAIN D.sets) \cap (DOMAIN K2.sets) :
                   K2.sets[n].type = "ip" /\ c.pods[e.obj].ip \in K2.sets[n].members
            \/ LET pc == PodChain(e.obj) IN
               IF pc \in DOMAIN D.chains THEN pc \notin DOMAIN K2.chains \/ BagOf(K2.chains[pc]) # BagOf(D.chains[pc])
               ELSE pc \in DOMAIN K2.chains),
           "", [ev |-> e.ev, obj |-> e.obj,
                missing |-> {n \in DOMAIN D.sets : n \notin DOMAIN K2.sets \/ ~(D.sets[n].members \subseteq K2.sets[n].members)}])
    \* (a state that differs from Derived in an unknown way is judged flow by flow like an exact one: C16 is about verdicts)
    \cup (IF sync /\ xt \in {"ok", "unexplained"} THEN SemanticViolations(e, c2, K2)
          ELSE IF sync THEN V("Semantics", \E f \in Flows(U) : f.src # f.dst /\ Walk(K2, U, f) # K8sAllows(c2, U, f), "notConverged:" \o xt, [x |-> 0])
          ELSE {})

(* ---- conformance: every recorded step is the step PolicyManager.tla prescribes for that entry point ---- *)
\* the kernel state the model expects after line e, from the recorded state before it and the manager's memory mgr
Expected(e, c2) ==
    LET s == St(K, mgr)
        pod(k) == IF k \in DOMAIN c2.pods THEN c2.pods[k] ELSE c.pods[k] IN
    CASE e.ev = "FullSync" -> FullSync(s, U, c2)
      [] e.ev = "AddPolicy" /\ e.handled -> OnAddPolicy(s, U, c2)
      [] e.ev = "UpdatePolicy" /\ e.handled -> OnUpdatePolicy(s, U, c2)
      [] e.ev = "DeletePolicy" /\ e.handled -> OnDeletePolicy(s, U, c2)
      [] e.ev = "UpdatePod" /\ e.handled -> OnUpdatePod(s, c2, e.obj, c2.pods[e.obj])
      [] e.ev = "DeletePod" /\ e.handled -> OnDeletePod(s, c2, e.obj, c.pods[e.obj])
      [] e.ev = "Restart" -> St(K, NoCluster)
      [] OTHER -> s
Judged(e) == e.ev # "Reset" /\ ~(Has(e, "fault") /\ e.fault)
KDiff(a, b) == LET ca == CanonK(a)  cb == CanonK(b) IN
    [sets |-> {n \in (DOMAIN ca.sets) \cup (DOMAIN cb.sets) : n \notin DOMAIN ca.sets \/ n \notin DOMAIN cb.sets \/ ca.sets[n] # cb.sets[n]},
     chains |-> {n \in (DOMAIN ca.chains) \cup (DOMAIN cb.chains) : n \notin DOMAIN ca.chains \/ n \notin DOMAIN cb.chains \/ ca.chains[n] # cb.chains[n]}]

Next ==
    /\ l <= Len(Trace)
    /\ l' = l + 1
    /\ LET e == Trace[l]
           c2 == ClusterOfLog(e.cluster)
           K2 == KernelOfLog(e) IN
       /\ c' = c2 /\ K' = K2 /\ Kprev' = K
       /\ mgr' = IF e.ev = "Reset" THEN NoCluster ELSE Expected(e, c2).m
       /\ lastExact' = IF e.ev = "Reset" THEN FALSE
                       ELSE IF IsSync(e) THEN SameOwned(K2, Derived(c2, U, AllDevs))
                       ELSE IF e.ev \in {"UpdatePod", "DeletePod", "AddPod"} /\ e.tracked THEN lastExact ELSE FALSE
       /\ div' = IF Judged(e) /\ CanonK(Expected(e, c2).K) # CanonK(K2)
                   THEN div \cup {[line |-> l, trace |-> tid, ev |-> e.ev, obj |-> IF Has(e, "obj") THEN e.obj ELSE "", why |-> KDiff(Expected(e, c2).K, K2)]}
                 ELSE div
       /\ IF e.ev = "Reset"
            THEN /\ tid' = e.trace /\ U' = UniverseOfLog(e) /\ K0' = K2 /\ viol' = viol
                 /\ stats' = [stats EXCEPT !.events = @ + 1, !.traces = @ + 1]
            ELSE /\ tid' = tid /\ U' = U /\ K0' = K0
                 /\ viol' = viol \cup LineViolations(e, c2, K2)
                 /\ stats' = [stats EXCEPT !.events = @ + 1,
                                           !.judged = @ + (IF Judged(e) THEN 1 ELSE 0),
                                           !.conform = @ + (IF Judged(e) /\ CanonK(Expected(e, c2).K) = CanonK(K2) THEN 1 ELSE 0),
                                           !.syncs = @ + (IF IsSync(e) THEN 1 ELSE 0),
                                           !.flows = @ + (IF IsSync(e) THEN Cardinality(Flows(U)) ELSE 0),
                                           !.denied = @ + (IF IsSync(e) THEN Cardinality({f \in Flows(U) : ~Walk(K2, U, f)}) ELSE 0),
                                           !.exactok = @ + (IF IsSync(e) /\ SameOwned(K2, Derived(c2, U, AllDevs)) THEN 1 ELSE 0)]

Spec == Init /\ [][Next]_vars

Report ==
    l <= Len(Trace) \/
    PrintT(<<"REPORT", ToJson([lines |-> Len(Trace), consumed |-> l - 1, viol |-> viol, div |-> div, stats |-> stats])>>)
=============================================================================
