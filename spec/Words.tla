-------------------------------- MODULE Words --------------------------------
(***************************************************************************)
(* C18 (arithmetic part): the address-walking loops of galaxy-ipam over    *)
(* W-bit unsigned words (the code uses uint32; the boundary structure is   *)
(* the same for every W).  walkIPRanges visits first..last with a counter  *)
(* that is incremented modulo 2^W:                                          *)
(*     for ; i <= last; i++ { visit(i); if i == last { break } }            *)
(* The `if` is the guard the repaired code has (BreakAtLast = TRUE);        *)
(* without it the loop never ends when last = 2^W-1.  TLC checks, for ALL   *)
(* first <= last, that the loop terminates having visited exactly           *)
(* first..last, and that the order/overlap check of fipCheck computed in    *)
(* W bits (Wide64 = FALSE) or wider (TRUE) agrees with the integers.        *)
(***************************************************************************)
EXTENDS Integers, FiniteSets

CONSTANTS W, BreakAtLast, Wide64
Top == 2^W - 1
Word == 0..Top

VARIABLES first, last, i, visited, done
vars == <<first, last, i, visited, done>>

Init == /\ first \in Word /\ last \in Word /\ first <= last
        /\ i = first /\ visited = {} /\ done = FALSE

Step == /\ ~done
        /\ IF i <= last
             THEN /\ visited' = visited \cup {i}
                  /\ IF BreakAtLast /\ i = last THEN done' = TRUE /\ i' = i
                     ELSE done' = FALSE /\ i' = (i + 1) % (Top + 1)
             ELSE visited' = visited /\ done' = TRUE /\ i' = i
        /\ UNCHANGED <<first, last>>
Next == Step \/ (done /\ UNCHANGED vars)
Spec == Init /\ [][Next]_vars /\ WF_vars(Step)

Terminates == <>done
ExactWalk == done => visited = first..last
Bounded == Cardinality(visited) <= Top + 1

\* fipCheck's adjacency test "next.first <= prev.last + 1" in W bits vs. in the integers
Adj(prevLast, nextFirst) == IF Wide64 THEN nextFirst <= prevLast + 1 ELSE nextFirst <= (prevLast + 1) % (Top + 1)
AdjAgrees == \A a \in Word, b \in Word : Adj(a, b) <=> (b <= a + 1)
=============================================================================
